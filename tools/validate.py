#!/usr/bin/env python3
# Sanity check of what is about to be committed: MANIFEST and evidence files against their schemas, evidence
# consistency (proof level: discharged == obligations, no violations, quick tier or thorough), one evidence per claim.
import json, glob, sys
try:
    import jsonschema
except ImportError:
    print("run with python3-vt"); sys.exit(2)
ok = True
m = json.load(open('/verif/MANIFEST.json'))
jsonschema.validate(m, json.load(open('/root/.vp/MANIFEST.schema.json')))
sch = json.load(open('/root/.vp/EVIDENCE.schema.json'))
claimed = [c['property_id'] for c in m['checks']]
for p in claimed:
    f = f'/verif/evidence/{p}.json'
    try:
        e = json.load(open(f))
        jsonschema.validate(e, sch)
    except Exception as ex:
        print(p, 'INVALID', str(ex)[:200]); ok = False; continue
    c = e['coverage']
    if c.get('obligations') != c.get('discharged') or e.get('violations'):
        print(p, 'INCONSISTENT obligations', c.get('obligations'), 'discharged', c.get('discharged'), 'violations', e.get('violations')); ok = False
    lvl = [x for x in m['checks'] if x['property_id'] == p][0]['level_claimed']['category']
    if lvl != e['level']:
        print(p, 'LEVEL MISMATCH manifest', lvl, 'evidence', e['level']); ok = False
    print(p, e['level'], e['tier'], c['obligations'], 'obligations', len(c['functions_under_contract']), 'functions', 'known findings:', c.get('obligations_open_as_known_findings', 0))
for f in glob.glob('/verif/evidence/*.json'):
    p = f.split('/')[-1][:-5]
    if p not in claimed:
        print('evidence for unclaimed property', p)
print('OK' if ok else 'PROBLEMS')
sys.exit(0 if ok else 1)
