#!/bin/bash
# usage: seedcopy.sh <seed-id> <demo-pkg-dir> <prop>...   (same as seedtest.sh, but the checks run on a throw-away copy of /repo, so several can run side by side)
set -u
id="$1"; PKG="$2"; shift 2
SD=/verif/seeded/$id
export GOFLAGS=-mod=mod GOPROXY=off
T=$(mktemp -d /tmp/seedcopy.XXXXXX)
trap 'rm -rf $T' EXIT
mkdir -p $T/repo $T/verif/evidence $T/verif/replays
(cd /repo && tar --exclude=.git -cf - .) | (cd $T/repo && tar -xf -)
cp /verif/known_findings.json $T/verif/; ln -s /verif/spec $T/verif/spec; ln -s /verif/bounded $T/verif/bounded
cd $T/repo
(git init -q . && git add -A && git -c user.email=a@b -c user.name=x commit -qm base) >/dev/null 2>&1
git apply "$SD/patch.diff" || { echo "$id CONFIRM: patch does not apply"; exit 2; }
go build ./... || { echo "$id CONFIRM: does not build"; exit 2; }
if go test -vet=off -count=1 ./... >$T/suite.log 2>&1; then echo "$id CONFIRM: existing suite passes with change"; else echo "$id CONFIRM: existing suite FAILS with change"; tail -5 $T/suite.log; fi
cp "$SD/seed_demo_test.go" "$T/repo/$PKG/seed_demo_test.go"
if (cd $T/repo/$PKG && go test -vet=off -count=1 -run 'SeedDemo' . >$T/demo1.log 2>&1); then echo "$id CONFIRM: demo PASSES with change (bad seed)"; else echo "$id CONFIRM: demo fails with change"; fi
git apply -R "$SD/patch.diff"
if (cd $T/repo/$PKG && go test -vet=off -count=1 -run 'SeedDemo' . >$T/demo2.log 2>&1); then echo "$id CONFIRM: demo passes without change"; else echo "$id CONFIRM: demo FAILS without change (bad seed)"; tail -5 $T/demo2.log; fi
rm -f "$T/repo/$PKG/seed_demo_test.go"
git apply "$SD/patch.diff"
for p in "$@"; do
  out=$(GOVC_NO_EVIDENCE=1 /verif/bin/govc check -prop $p -tier quick -repo $T/repo -verif $T/verif 2>&1); rc=$?
  echo "$id CHECK $p exit=$rc: $(echo "$out" | grep -c '^VIOLATION') violations"; echo "$out" | grep -A1 "^VIOLATION\|^ERROR" | grep -v "^--" | head -8
done
