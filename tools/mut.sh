#!/bin/bash
# usage: mut.sh <file> <sed-expr> <prop>...   : apply a sed mutation to /repo/<file>, run checks, revert
f="$1"; e="$2"; shift 2
cd /repo && sed -i "$e" "$f" && git diff --stat | tail -1
if ! GOFLAGS=-mod=mod GOPROXY=off go build ./... ; then echo "MUTANT DOES NOT BUILD"; git checkout -- .; exit 2; fi
for p in "$@"; do out=$(GOVC_NO_EVIDENCE=1 /verif/bin/check $p 2>&1); echo "$p rc=$? viol=$(echo "$out" | grep -c '^VIOLATION') $(echo "$out" | grep -A1 '^VIOLATION' | grep obligation | head -2 | cut -c1-160)"; done
git checkout -- "$f"
