#!/bin/bash
# usage: seedtest.sh <seed-dir> <demo-pkg-dir-relative> <prop> [<prop>...]
# 1. confirms the seed in a scratch worktree (compiles, existing tests pass, demo fails with / passes without)
# 2. applies it to /repo, runs the given checks, and undoes it.
set -u
SD="$1"; PKG="$2"; shift 2
export GOFLAGS=-mod=mod GOPROXY=off
W=/tmp/confirm_$$
git -C /repo worktree add --detach $W HEAD -q || exit 2
cleanup() { git -C /repo worktree remove --force $W 2>/dev/null; }
trap cleanup EXIT
cd $W
git apply "$SD/patch.diff" || { echo "CONFIRM: patch does not apply"; exit 2; }
go build ./... || { echo "CONFIRM: does not build"; exit 2; }
if go test -vet=off -count=1 ./... >/tmp/confirm_suite.log 2>&1; then echo "CONFIRM: existing suite passes with change"; else echo "CONFIRM: existing suite FAILS with change"; tail -5 /tmp/confirm_suite.log; fi
cp "$SD/seed_demo_test.go" "$W/$PKG/seed_demo_test.go"
if (cd $W/$PKG && go test -vet=off -count=1 -run 'SeedDemo' . >/tmp/confirm_demo1.log 2>&1); then echo "CONFIRM: demo PASSES with change (bad seed)"; else echo "CONFIRM: demo fails with change"; fi
git checkout -q -- . 
if (cd $W/$PKG && go test -vet=off -count=1 -run 'SeedDemo' . >/tmp/confirm_demo2.log 2>&1); then echo "CONFIRM: demo passes without change"; else echo "CONFIRM: demo FAILS without change (bad seed)"; tail -5 /tmp/confirm_demo2.log; fi
cd /verif
git -C /repo apply "$SD/patch.diff" || exit 2
for p in "$@"; do
  out=$(GOVC_NO_EVIDENCE=1 /verif/bin/check $p --tier quick 2>&1); rc=$?
  echo "CHECK $p exit=$rc: $(echo "$out" | grep -c '^VIOLATION') violations"; echo "$out" | grep -A1 "^VIOLATION" | grep -v "^--" | head -6
done
git -C /repo apply -R "$SD/patch.diff"
git -C /repo status --short | head -3
