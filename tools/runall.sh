#!/bin/bash
# runs the quick check of each given property (default: all with contracts) and prints one summary line each
props="${@:-C02 C03 C04 C05 C06 C07 C08 C09 C10 C12 C13 C15 C16 C17 C18 C19 C20}"
for p in $props; do
  out=$(/verif/bin/check $p --tier quick 2>&1); rc=$?
  echo "$p rc=$rc $(echo "$out" | tail -1)"
  if [ $rc -ne 0 ]; then echo "$out" | grep -A1 "^VIOLATION\|^ERROR" | head -12; fi
done
