#!/bin/bash
# usage: collectseed.sh <id> <demo-pkg-dir> : saves the sub-agent's change from /tmp/wt/<id> as /verif/seeded/<id>/ and removes the worktree
set -eu
id="$1"; pkg="${2:-.}"
W=/tmp/wt/$id; SD=/verif/seeded/$id
mkdir -p $SD
(cd $W && git diff -- . ':!*contracts_verif.go' ':!*_test.go') > $SD/patch.diff
cp $W/$pkg/seed_demo_test.go $SD/seed_demo_test.go
git -C /repo worktree remove --force $W
wc -l $SD/patch.diff
