#!/usr/bin/env python3
# Regenerates MANIFEST.json from the table below (kept in one place so the manifest is always valid).
import json, subprocess
claimed = {
 "C17": dict(cat="proof", tech="contract-based deductive verification: WP-style VCs over go/ssa, contracts as //@ comments, discharged by z3/cvc5",
   text="Every obligation (pre/post/loop invariant/frame/lemma) generated from the real SSA of the varint, zig-zag, fixed-width and float primitives is discharged by an SMT solver for all 64-bit inputs and all buffer contents; the postconditions are the Avro 1.8 encodings written as spec functions (zz, uvlen, uvbyte, pv).",
   ref="DESIGN.md section 5/C17",
   note="Trusted: the VC generator and solvers, go/ssa, little-endian amd64 layout, the assumed contracts listed in evidence.trusted_base."),
 "C19": dict(cat="proof", tech="contract-based deductive verification: WP-style VCs over go/ssa, contracts as //@ comments, discharged by z3/cvc5",
   text="buildTimeCodec, DateCodec.Read/Write and LongCodec.Read/Write are verified against the Avro logical-type definitions (date = signed int32 days from 1970-01-01, timestamp-millis/micros and the library's nanosecond long) for every stored integer and every schema value; the package time API is used through assumed algebraic contracts over an abstract instant (unix seconds, nanoseconds).",
   ref="DESIGN.md section 5/C19",
   note="Assumed: algebraic contracts of time.Date/Unix/UTC/Unix*/ (externals.spec), the arithmetic identity floor((86400 d + s)/86400) = d is not machine checked (64-bit division times out), umul_exact schema instances; plus the global trusted base."),
 "C09": dict(cat="proof", tech="contract-based deductive verification: representation invariant + per-operation postconditions over a ghost output trace; VCs over go/ssa discharged by z3/cvc5",
   text="The encoder's representation invariant (encInv) is preserved by Encode and Flush (generic bodies of Encoder[T]) and each operation's postcondition fixes exactly which io.Writer calls it makes: Flush writes one block iff records are pending and then resets count and buffer; Encode appends one record and flushes iff the buffer reached the block size; WriteBlock emits varint(count), varint(len(payload)), payload, sync in that order. Induction over call histories is the invariant.",
   ref="DESIGN.md section 5/C09",
   note="Assumed: io.Writer obeys its contract and does not touch encoder state; compressors only modify their private buffers (ghost predicate cowned); compress output decompresses to its input. NewEncoderFor (reflection, schema generation) is not under contract: the invariant is assumed to hold for a freshly built encoder."),
 "C16": dict(cat="proof", tech="contract-based deductive verification: error-propagation postconditions over a ghost trace of io.Writer calls (each event carries the returned error); VCs over go/ssa discharged by z3/cvc5",
   text="For WriteHeader, writeVarInt, WriteBlock, Flush and Encode: every io.Writer.Write call is a trace event carrying its bytes and its error; the postconditions state that all events but the last succeeded, that a failing last event makes the call return a non-nil error wrapping that error (fmt.Errorf %w, transitively), and that a nil result means all writes were made. The bytes passed to each write do not depend on earlier results, so the accepted bytes are a prefix of the fault-free output. No-panic obligations of these functions are included.",
   ref="DESIGN.md section 5/C16",
   note="Assumed: the io.Writer contract (n <= len(p), err == nil => n == len(p)); fmt.Errorf wraps its %w arguments; wraps is transitive."),
 "C07": dict(cat="proof", tech="contract-based deductive verification over a ghost input stream and a ghost event trace (loop invariants, callee contracts); io.ReadFull/ReadAtLeast and binary.ReadVarint/ReadUvarint verified from GOROOT source; z3/cvc5",
   text="ReadFile, readFileHeader, readBytes, FileHeader.schema and the three decompress implementations are verified: wrong magic, missing schema, unknown codec, sync mismatch, snappy checksum mismatch or short block, and any decompressor error each force a non-nil error; a header without avro.codec selects the null codec; per block exactly the declared number of (zero, decode, callback) triples happens; a callback error is returned unchanged and is the last event. Holds for every input stream and every callback behaviour.",
   ref="DESIGN.md section 5/C07",
   note="Assumed: Reader is a well-behaved io.Reader/io.ByteReader over a fixed byte string; flate/snappy/crc32/bytes.Buffer contracts (a corrupt stream is reported through their error result); Schema.Codec's contract is trusted (build functions not yet under contract); the callback does not touch decoder state; bank buffers are private (assumed postconditions of Reset/ExtractResourceBank)."),
 "C08": dict(cat="proof", tech="contract-based deductive verification over a ghost input stream with symbolic length (every cut position at once); stdlib stream functions verified from GOROOT source; z3/cvc5",
   text="With the stream length symbolic, ReadFile returns nil only if the last stream access was a block-count read that found end-of-input before its first byte (zero bytes consumed since the loop head, position == length) and the preceding event, if any, is a complete sync-marker read; every other exit returns a non-nil error. ReadUvarint distinguishes clean EOF (no byte consumed) from mid-varint EOF; ReadFull reports short reads; callbacks only happen inside a block whose payload was completely read and decompressed.",
   ref="DESIGN.md section 5/C08",
   note="Same assumptions as C07. 'Loop head = block boundary' is structural (the loop head is reached only after the header or after a matching sync marker, which the loop invariant lastIsSync states)."),
 "C18": dict(cat="proof", tech="contract-based deductive verification against an RFC 3339 grammar predicate over the input bytes (loop invariant over the fraction digits, recursive ghost digit value, loop postconditions); z3/cvc5",
   text="parseTime, atoi2, atoi4 and getTimezone are verified for all strings: no panic, and for every string matching the RFC 3339 date-time grammar (any fraction length, '.' or ',' separator, Z or numeric offset) or the YYYY-MM-DD form, the result is err == nil with instant civil(Y,M,D,h,m,s) - offset, nanoseconds = the first nine fraction digits (truncation), and zone offset as written. Agreement with the standard library is through the assumed contract that time.Parse(RFC3339) denotes the same grammar and values.",
   ref="DESIGN.md section 5/C18",
   note="Assumed: algebraic contract of time.Date/FixedZone (instant = civil - offset), time.Parse/Format denote the RFC 3339 grammar, the zone cache invariant tzInv on entry, rune decoding of range-over-string (ASCII bytes are themselves, other runes are >= 0x80); umul_exact schema instances."),
}
reasons = {}
allp = [json.loads(l)["id"] for l in open("/verif/properties.jsonl")]
hook_commits = subprocess.run(["git","-C","/repo","log","--format=%H","--grep=^verif hook"],capture_output=True,text=True).stdout.split()
m = {
 "version": 1,
 "setup_cmd": "cd /verif/govc && GOFLAGS= GOPROXY=off go build -mod=vendor -o /verif/bin/govc .",
 "hooks": {"guard": "verif", "enable": "go build -tags verif (comment-only contract files contracts_verif.go; read by govc through go/packages with -tags=verif)",
           "baseline_off_cmd": "cd /repo && GOFLAGS=-mod=mod GOPROXY=off go test -vet=off -count=1 ./...",
           "source_commits": hook_commits, "add_only": True},
 "engines": [{"name": "govc", "path": "/verif/govc", "serves_properties": sorted(claimed), "kind_free_text": "self-written deductive verifier for Go: go/packages + go/ssa -> weakest-precondition verification conditions over bit-vectors/arrays -> z3 4.8.12, z3 5.1.0, cvc5 1.0.3; contracts are structured //@ comments in /repo/**/contracts_verif.go (build tag verif) and /verif/spec/*.spec"}],
 "checks": [], "not_applicable": [],
 "notes": "All checks rebuild the SSA and the verification conditions from /repo's working tree on every run. See DESIGN.md.",
}
for p in allp:
    if p in claimed:
        c = claimed[p]
        m["checks"].append({"property_id": p, "quick_cmd": f"/verif/bin/check {p} --tier quick", "thorough_cmd": f"/verif/bin/check {p} --tier thorough",
          "evidence_file": f"/verif/evidence/{p}.json", "replay_cmd_template": "cat {path}", "engine": "govc",
          "level_claimed": {"category": c["cat"], "text": c["text"], "design_ref": c["ref"]}, "level_note": c["note"], "technique": c["tech"]})
    else:
        m["not_applicable"].append({"property_id": p, "reason": reasons.get(p, "not claimed yet: contracts for this property are still being written in this round (no check registered, nothing is asserted about it)")})
json.dump(m, open("/verif/MANIFEST.json","w"), indent=1)
print("claimed", sorted(claimed))
