package main

// Function verification driver and loop handling.

import (
	"fmt"
	"go/token"
	"go/types"
	"os"
	"runtime/debug"
	"sort"
	"strings"

	"golang.org/x/tools/go/ssa"
)

type FnResult struct {
	Func     string
	Contract *Contract
	Obls     []*Obligation
	Unsup    string
	Notes    []string
	Err      string
}

func (e *Engine) VerifyFunction(fn *ssa.Function, c *Contract, panics bool, props map[string]bool) (res *FnResult) {
	return e.VerifyFunctionAs(fn, c, panics, props, "")
}

// VerifyFunctionAs: with ifaceKey != "" the body is checked against the interface method contract ifaceKey
// (refinement); loop invariants still come from the function's own contract c.
func (e *Engine) VerifyFunctionAs(fn *ssa.Function, c *Contract, panics bool, props map[string]bool, ifaceKey string) (res *FnResult) {
	res = &FnResult{Func: e.relName(fn), Contract: c}
	own := c
	if strings.HasPrefix(ifaceKey, "view:") {
		res.Func += " [view " + strings.TrimPrefix(ifaceKey, "view:") + "]"
		ifaceKey = ""
	}
	if ifaceKey != "" {
		ic := e.specs.Ifaces[ifaceKey]
		if ic == nil {
			res.Err = "contract: unknown interface contract " + ifaceKey
			return res
		}
		res.Func += " as " + shortName(ifaceKey)
		// combined view: pre/post/modifies/lets of the interface, loops and axiom uses of the implementation
		cc := *ic
		cc.Loops = map[int]*LoopSpec{}
		if own != nil {
			cc.Loops = own.Loops
			cc.Uses = append(append([]*Expr{}, ic.Uses...), own.Uses...)
			cc.Asserts = append(append([]*MidAssert{}, ic.Asserts...), own.Asserts...) // checkpoints and lemma applications of the body
			cc.SplitReturns = own.SplitReturns
		}
		c = &cc
	}
	rt := &root{e: e, fn: fn, c: c, counters: map[string]int{}, panics: panics, props: props, notes: map[string]bool{}, lateGhost: map[string]bool{}}
	defer func() {
		if x := recover(); x != nil {
			switch er := x.(type) {
			case unsupportedErr:
				res.Unsup = er.msg
			case error:
				if strings.HasPrefix(er.Error(), "contract:") {
					res.Err = er.Error()
				} else {
					res.Err = fmt.Sprintf("%v\n%s", er, debug.Stack())
				}
			default:
				res.Err = fmt.Sprintf("%v\n%s", x, debug.Stack())
			}
		}
		res.Obls = rt.obls
		for n := range rt.notes {
			res.Notes = append(res.Notes, n)
		}
		sort.Strings(res.Notes)
	}()
	e.initHeap = map[string]*Term{}
	r := &FnRun{root: rt, e: e, fn: fn, c: c, vals: map[ssa.Value]Val{}, names: map[string]ssa.Value{}}
	if ifaceKey != "" {
		r.label = "refines:" + shortName(ifaceKey)
	}
	st := e.newEntryState()
	rt.entry = st
	tb := e.tb
	// parameters
	env := r.newEnv(st, st)
	var ifaceNames []string
	if ifaceKey != "" {
		ifaceNames = e.ifaceParamNames(ifaceKey)
		if len(ifaceNames) != len(fn.Params)-1 {
			panic(cerr("interface method %s has %d parameters, implementation %s has %d", ifaceKey, len(ifaceNames), fn, len(fn.Params)-1))
		}
	}
	for pi, p := range fn.Params {
		v := e.freshVal(p.Type(), "p!"+p.Name())
		r.vals[p] = v
		env.vars[p.Name()] = CV{V: v, T: p.Type()}
		if ifaceKey != "" {
			if pi == 0 {
				env.vars["this"] = CV{V: r.makeInterface(st, v, p.Type()), T: specTypes["iface"]}
			} else {
				env.vars[ifaceNames[pi-1]] = CV{V: v, T: p.Type()}
			}
		}
		var pt *Term
		if s, ok := v.(Scalar); ok && isPointerLike(p.Type()) {
			pt = s.T
		}
		rt.paramTerms = append(rt.paramTerms, pt)
		r.typeInvariant(v, p.Type())
		var ls []leaf
		leaves(v, p.Name(), &ls)
		rt.inputs = append(rt.inputs, ls...)
	}
	if len(fn.FreeVars) > 0 {
		panic(unsupported("closure"))
	}
	// global facts (assumed: established by package initialisation, never changed afterwards)
	for _, gf := range e.specs.Globals {
		genv := r.newEnv(st, st)
		if gf.Pkg != "" {
			if sp := e.ssaPkgs[gf.Pkg]; sp != nil {
				genv.pkg = sp.Pkg
			}
		}
		r.addFact(genv.EvalBool(gf.E))
	}
	// the nil base denotes no object
	r.addFact(tb.Not(tb.App("cowned", BoolSort, tb.BVI(64, 0))))
	r.addFact(tb.Not(tb.App("rodata", BoolSort, tb.BVI(64, 0))))
	r.addFact(tb.Not(tb.Select(st.BA, tb.BVI(64, 0))))
	// trace starts empty
	st.Ghost["trace.len"] = tb.BVI(64, 0)
	if c != nil {
		if ifaceKey != "" && own != nil {
			// entry values named by the implementation's own contract (used by its loop invariants)
			for _, l := range own.Lets {
				env.vars[l.Name] = env.Eval(l.E)
			}
		}
		for _, l := range c.Lets {
			env.vars[l.Name] = env.Eval(l.E)
		}
		for _, cl := range c.Requires {
			r.addFact(env.EvalBool(cl.E))
		}
		// axiom instances over the parameters hold from the start (those naming results are only usable at the end)
		for _, u := range c.Uses {
			func() {
				defer func() { recover() }()
				r.addFact(env.useAxiom(u))
			}()
		}
		if c.Measure != nil {
			mc := env.coerceConst(env.Eval(c.Measure), types.Typ[types.Int])
			rt.measure = r.toInt64(r.scalar(mc.V), mc.T)
		}
		// vacuity guard: the precondition must be satisfiable
		if len(c.Requires) > 0 {
			o := &Obligation{Name: e.relName(fn) + ":cover:requires#1", Func: e.relName(fn), Kind: "cover", Hyps: append([]*Term{}, rt.facts...), Goal: tb.True(), Cover: true, Pos: e.pos(fn.Pos()), Text: "requires is satisfiable"}
			rt.obls = append(rt.obls, o)
		}
	}
	r.env = env
	r.execBody(st)
	if len(r.rets) == 0 {
		// function never returns normally (all paths panic or loop forever): its postconditions would hold vacuously,
		// so this is reported as an obligation of its own
		if c != nil {
			r.oblige(st, "returns", "", tb.False(), fn.Pos(), "the function returns normally on some path (every path panics or diverges)", nil)
		}
		return res
	}
	retv, fin := r.mergeReturns()
	for k, v := range fin.Ghost {
		if v != nil && v.Sort.Kind != SArr {
			rt.watch = append(rt.watch, leaf{"final." + k, v})
		}
	}
	for _, nm := range []string{"kind", "a", "c", "d", "e"} {
		if arr, ok := fin.Ghost["trace."+nm]; ok && arr != nil {
			for i := 0; i < 4; i++ {
				rt.watch = append(rt.watch, leaf{fmt.Sprintf("final.trace.%s[%d]", nm, i), tb.Select(arr, tb.BVI(64, int64(i)))})
			}
		}
	}
	// vacuity guard: some return is reachable
	rt.obls = append(rt.obls, &Obligation{Name: e.relName(fn) + ":cover:return#1", Func: e.relName(fn), Kind: "cover", Hyps: append(append([]*Term{}, rt.facts...), fin.PC), Goal: tb.True(), Cover: true, Pos: e.pos(fn.Pos()), Text: "a return is reachable"})
	if c == nil {
		return res
	}
	env2 := env.child()
	env2.cur, env2.old = fin, st
	if fn.Signature.Results().Len() > 0 {
		r.bindResults(env2, fn.Signature, retv)
	}
	for _, u := range c.Uses {
		r.assume(fin, env2.useAxiom(u))
	}
	for i, cl := range c.Ensures {
		if hasTag(cl, "assume") {
			// ghost bookkeeping / environment assumption: used by callers, not checked here (listed in the evidence)
			e.usedAxioms["assumed postcondition of "+e.relName(fn)+": "+cl.Text] = true
			continue
		}
		if !rt.wantClause(cl) {
			continue
		}
		if c.SplitReturns && len(r.rets) > 1 {
			for k, rp := range r.rets {
				envR := env.child()
				envR.cur, envR.old = rp.st, st
				var rv Val
				switch len(rp.vals) {
				case 0:
				case 1:
					rv = rp.vals[0]
				default:
					rv = TupleV{Elems: rp.vals}
				}
				if fn.Signature.Results().Len() > 0 {
					r.bindResults(envR, fn.Signature, rv)
				}
				for _, u := range c.Uses {
					r.assume(rp.st, envR.useAxiom(u))
				}
				g := envR.EvalBool(cl.E)
				r.oblige(rp.st, "post", fmt.Sprintf("%d@ret%d", i+1, k+1), g, fn.Pos(), "ensures "+cl.Text, cl.Tags)
			}
			continue
		}
		g := env2.EvalBool(cl.E)
		name := fmt.Sprintf("%d", i+1)
		r.oblige(fin, "post", name, g, fn.Pos(), "ensures "+cl.Text, cl.Tags)
	}
	if c.HasMod {
		r.frameObligations(fin, st, env)
	}
	if len(c.Emits) > 0 && ifaceKey == "" {
		if c.ExactEmits {
			// the summary events callers record for this function must be exactly its own activation trace
			shadow := fin.Clone()
			shadow.Ghost["trace.len"] = tb.BVI(64, 0)
			for _, n := range []string{"kind", "a", "b", "c", "d", "e", "f", "g", "h"} {
				delete(shadow.Ghost, "trace."+n)
				shadow.Ghost["trace."+n] = tb.Var("G0:emits."+n, WordAr)
			}
			shadow.Ghost["trace.arr"] = tb.Var("G0:emits.arr", ObjAr)
			envS := env2.child()
			envS.cur = shadow
			envF := env2.child()
			envF.cur = fin
			for _, em := range c.Emits {
				r.emitEvent(shadow, envF, em.E)
			}
			var conj []*Term
			conj = append(conj, tb.Eq(r.e.ghost(fin, "trace.len", BV64), shadow.Ghost["trace.len"]))
			nEm := len(c.Emits)
			for i := 0; i < nEm; i++ {
				k := tb.BVI(64, int64(i))
				for _, n := range []string{"kind", "a", "b", "c", "d", "e", "f", "g", "h"} {
					sa := shadow.Ghost["trace."+n]
					if sa.Op != "store" {
						continue // slot never written by the declared events
					}
					conj = append(conj, tb.Eq(tb.Select(r.e.ghost(fin, "trace."+n, WordAr), k), tb.Select(sa, k)))
				}
				if sa := shadow.Ghost["trace.arr"]; sa.Op == "store" {
					conj = append(conj, tb.Eq(tb.Select(r.e.ghost(fin, "trace.arr", ObjAr), k), tb.Select(sa, k)))
				}
			}
			r.oblige(fin, "emits", "", tb.And(conj...), fn.Pos(), "declared emits equal the function's own activation trace", nil)
		}
	}
	return res
}

func (rt *root) wantClause(cl *Clause) bool {
	if rt.props == nil || len(cl.Tags) == 0 {
		return true
	}
	for _, t := range cl.Tags {
		if rt.props[t] {
			return true
		}
	}
	return false
}

// typeInvariant: Go-level invariants of a value of type t (slice bounds).
func (r *FnRun) typeInvariant(v Val, t types.Type) {
	tb := r.tb()
	zero := tb.BVI(64, 0)
	lim := tb.BVU(64, 1<<48)
	switch x := v.(type) {
	case SliceV:
		r.addFact(tb.And(tb.SLe(zero, x.Len), tb.SLt(x.Len, lim), tb.SLe(zero, x.Off), tb.SLt(x.Off, lim)))
		if x.Cap != nil {
			r.addFact(tb.And(tb.SLe(x.Len, x.Cap), tb.SLt(x.Cap, lim)))
			r.addFact(tb.Implies(tb.Eq(x.Base, zero), tb.Eq(x.Cap, zero)))
			r.addFact(tb.Not(tb.App("rodata", BoolSort, x.Base)))
		} else {
			r.addFact(tb.Implies(tb.Eq(x.Base, zero), tb.Eq(x.Len, zero)))
		}
		r.addFact(tb.Or(tb.Eq(x.Base, zero), tb.Select(r.rootEntry().BA, x.Base)))
	case PSlice:
		r.addFact(tb.And(tb.SLe(zero, x.Len), tb.SLe(x.Len, x.Cap), tb.SLt(x.Cap, lim)))
		r.addFact(tb.ULt(x.Ptr, tb.BVU(64, 1<<47)))
		// Go invariant: a slice with capacity has a non-nil backing array
		r.addFact(tb.Implies(tb.SGt(x.Cap, zero), tb.Not(tb.Eq(x.Ptr, zero))))
		if x.Elem != nil && len(r.root.knownRanges) < 16 {
			dup := false
			for _, kr := range r.root.knownRanges {
				if kr[0] == x.Ptr {
					dup = true
				}
			}
			if !dup {
				r.root.knownRanges = append(r.root.knownRanges, [2]*Term{x.Ptr, tb.Mul(x.Cap, tb.BVI(64, r.e.sizeof(x.Elem)))})
				if os.Getenv("GOVC_DEBUG_MODS") != "" {
					fmt.Fprintf(os.Stderr, "knownRange %d: %s\n", len(r.root.knownRanges), x.Ptr.Op+" "+x.Ptr.Name)
				}
			}
		}
	case Scalar:
		// typed pointers are nil or user-space addresses
		if _, isP := t.Underlying().(*types.Pointer); isP && x.T.Sort == BV64 {
			r.addFact(tb.ULt(x.T, tb.BVU(64, 1<<47)))
		}
	case StructV:
		if su, ok := t.Underlying().(*types.Struct); ok {
			for i, f := range x.Fields {
				r.typeInvariant(f, su.Field(i).Type())
			}
		}
	}
}

// frameObligations: everything not named in modifies is unchanged.
func (r *FnRun) frameObligations(fin, entry *State, env *Env) {
	tb := r.tb()
	c := r.c
	mods := r.resolveMods(c, env)
	all := false
	fieldMods := map[string][]*Term{} // key -> allowed object addrs (nil entry = whole)
	whole := map[string]bool{}
	var mRanges [][2]*Term
	mWhole, bhWhole := false, false
	var bhBases []*Term
	ghostOK := map[string]bool{}
	mapOK := map[string]bool{}
	for _, m := range mods {
		switch m.Kind {
		case "all":
			all = true
		case "field":
			sfxs := []sfx{{"", nil}}
			if m.FT != nil {
				sfxs = leafSuffixes(m.FT)
			}
			for _, s := range sfxs {
				if m.Addr == nil {
					whole[m.Key+s.s] = true
				} else {
					fieldMods[m.Key+s.s] = append(fieldMods[m.Key+s.s], m.Addr)
				}
			}
		case "obj":
			for _, lk := range r.typeLeafKeys(m.ObjT) {
				fieldMods[lk.key] = append(fieldMods[lk.key], tb.Add(m.Addr, tb.BVI(64, lk.off)))
			}
		case "heaptype":
			for _, lk := range r.typeLeafKeys(m.ObjT) {
				whole[lk.key] = true
			}
		case "M":
			if m.A == nil {
				mWhole = true
			} else {
				mRanges = append(mRanges, [2]*Term{m.A, m.N})
			}
		case "BH":
			if m.Base == nil {
				bhWhole = true
			} else {
				bhBases = append(bhBases, m.Base)
			}
		case "ghost":
			ghostOK[m.Name] = true
		case "map":
			mapOK["map:"+m.Name] = true
		}
	}
	if all {
		return
	}
	tags := []string{"frame"}
	for _, k := range r.allHeapKeys(fin) {
		f := fin.Heap[k]
		i := entry.Heap[k]
		if i == nil {
			i = r.e.initHeap[k]
		}
		if f == nil || f == i || whole[k] {
			continue
		}
		a := tb.Fresh("fa", BV64)
		var not []*Term
		for _, ad := range fieldMods[k] {
			not = append(not, tb.Ne(a, ad))
		}
		// locally allocated objects are not visible to the caller
		not = append(not, tb.Select(entry.RA, a), tb.Not(r.isLocalHeapAddr(a)))
		g := tb.Implies(tb.And(not...), tb.Eq(tb.Select(f, a), tb.Select(i, a)))
		r.oblige(fin, "frame", k, g, r.fn.Pos(), "modifies: "+k+" unchanged outside the listed objects", tags)
	}
	if !mWhole && fin.M != entry.M {
		a := tb.Fresh("fa", BV64)
		var in []*Term
		for _, rg := range mRanges {
			in = append(in, tb.ULt(tb.Sub(a, rg[0]), rg[1]))
		}
		g := tb.Implies(tb.And(tb.Select(entry.RA, a), tb.Not(tb.Or(in...))), tb.Eq(tb.Select(fin.M, a), tb.Select(entry.M, a)))
		r.oblige(fin, "frame", "M", g, r.fn.Pos(), "modifies: raw memory allocated at entry unchanged outside the listed ranges", tags)
	}
	if !bhWhole && fin.BH != entry.BH {
		b := tb.Fresh("fb", BV64)
		var in []*Term
		for _, bb := range bhBases {
			in = append(in, tb.Eq(b, bb))
		}
		g := tb.Implies(tb.And(tb.Select(entry.BA, b), tb.Not(tb.Or(in...))), tb.Eq(tb.Select(fin.BH, b), tb.Select(entry.BH, b)))
		r.oblige(fin, "frame", "BH", g, r.fn.Pos(), "modifies: byte objects allocated at entry unchanged unless listed", tags)
	}
	for k, v := range fin.MapVer {
		if mapOK[k] || v == nil {
			continue
		}
		old := entry.MapVer[k]
		if old == nil {
			old = tb.Var("MV0:"+k, BV64)
		}
		if old != v {
			if fm := r.root.freshMaps[k]; len(fm) > 0 {
				// maps made by this activation are not visible to the caller: every other map of the type is unchanged
				r.oblige(fin, "frame", k, r.mapSameExcept(k, fm, old, v), r.fn.Pos(), "modifies: map contents unchanged (maps made by this activation aside)", tags)
			} else {
				r.oblige(fin, "frame", k, tb.Eq(old, v), r.fn.Pos(), "modifies: map contents unchanged", tags)
			}
		}
	}
	for k, v := range fin.Ghost {
		if strings.HasPrefix(k, "trace.") || strings.HasPrefix(k, "iterpos:") || strings.HasPrefix(k, "iter.") || ghostOK[k] || v == nil {
			continue
		}
		old := entry.Ghost[k]
		if old == nil {
			old = tb.vars["G0:"+k]
		}
		if old != nil && old != v {
			r.oblige(fin, "frame", "ghost."+k, tb.Eq(old, v), r.fn.Pos(), "modifies: ghost "+k+" unchanged", tags)
		}
	}
}

// mapSameExcept: versions old and v of the maps of type key k agree on every map other than the listed fresh handles.
func (r *FnRun) mapSameExcept(k string, fresh []freshMap, old, v *Term) *Term {
	tb := r.tb()
	h := tb.BoundVar("h", BV64)
	kk := tb.BoundVar("k", BV64)
	var notFresh []*Term
	for _, f := range fresh {
		notFresh = append(notFresh, tb.Ne(h, f.h))
	}
	cs := []*Term{tb.Eq(tb.App("maphas:"+k, BoolSort, v, h, kk), tb.App("maphas:"+k, BoolSort, old, h, kk))}
	var ls []leaf
	leaves(r.e.zeroVal(fresh[0].t.Elem()), "", &ls)
	for i, l := range ls {
		cs = append(cs, tb.Eq(tb.App(fmt.Sprintf("mapval:%s:%d", k, i), l.T.Sort, v, h, kk), tb.App(fmt.Sprintf("mapval:%s:%d", k, i), l.T.Sort, old, h, kk)))
	}
	return tb.Forall([]*Term{h, kk}, tb.Implies(tb.And(notFresh...), tb.And(cs...)))
}

func (r *FnRun) isLocalHeapAddr(a *Term) *Term {
	tb := r.tb()
	var eqs []*Term
	for i, t := range r.root.localAddrs {
		sz := r.root.localSizes[i]
		if sz < 1 {
			sz = 1
		}
		eqs = append(eqs, tb.ULt(tb.Sub(a, t), tb.BVI(64, sz)))
	}
	for _, lr := range r.root.localRanges {
		eqs = append(eqs, tb.ULt(tb.Sub(a, lr[0]), lr[1]))
	}
	return tb.Or(eqs...)
}

// ---------------- loops ----------------

func (r *FnRun) enterLoop(li *loopInfo, edges []edge) *State {
	_ = r.tb()
	h := li.Header
	// forward entry state and phi entry values
	in := r.joinBlockVals(h, edges)
	stIn := in.st
	if li.Spec == nil {
		li.Spec = &LoopSpec{}
		r.root.notes[fmt.Sprintf("loop %d of %s has no invariant (default true)", li.Ordinal, r.e.relName(r.fn))] = true
	}
	for _, ins := range h.Instrs {
		if phi, ok := ins.(*ssa.Phi); ok && phi.Comment != "" {
			r.names[phi.Comment] = phi
			if r.loopPhis == nil {
				r.loopPhis = map[string]*ssa.Phi{}
			}
			r.loopPhis[phi.Comment] = phi
		}
	}
	// check invariants on entry
	envIn := r.loopEnv(stIn, in.phis)
	for _, ld := range li.Spec.Lets {
		envIn.vars[ld.Name] = envIn.Eval(ld.E)
	}
	for _, u := range li.Spec.Uses {
		r.assume(stIn, envIn.useAxiom(u))
	}
	for i, inv := range li.Spec.Inv {
		if !r.root.wantClause(inv) {
			continue
		}
		g := envIn.EvalBool(inv.E)
		r.oblige(stIn, "inv-entry", fmt.Sprintf("loop%d.%d", li.Ordinal, i+1), g, h.Instrs[0].Pos(), "loop invariant holds on entry: "+inv.Text, inv.Tags)
	}
	// havoc
	cur := stIn.Clone()
	r.loopEntryState = stIn
	mods := r.loopMods(li)
	mods = r.degradeImprecise(mods)
	r.applyLoopHavoc(cur, stIn, mods, li)
	li.phiVals = map[*ssa.Phi]Val{}
	for _, ins := range h.Instrs {
		phi, ok := ins.(*ssa.Phi)
		if !ok {
			break
		}
		v := r.e.freshVal(phi.Type(), "phi!"+phi.Comment)
		if pv, isP := in.phis[phi].(PtrV); isP {
			// keep pointer descriptors for pointer phis: same kind with fresh address
			if pv.Kind == PObj || pv.Kind == PRaw {
				np := pv
				np.Addr = v.(Scalar).T
				v = np
			}
		}
		r.vals[phi] = v
		li.phiVals[phi] = v
		r.typeInvariant(v, phi.Type())
	}
	li.headState = cur
	envH := r.loopEnv(cur, nil)
	for _, inv := range li.Spec.Inv {
		r.assume(cur, envH.EvalBool(inv.E))
	}
	for _, ld := range li.Spec.Lets {
		if r.loopLets == nil {
			r.loopLets = map[string]CV{}
		}
		v := envH.Eval(ld.E)
		r.loopLets[ld.Name] = v
		envH.vars[ld.Name] = v
	}
	for _, u := range li.Spec.Uses {
		r.assume(cur, envH.useAxiom(u))
	}
	for i, u := range li.Spec.Applies {
		p, q := envH.applyLemma(u, true)
		if w := li.Spec.ApplyWhen[i]; w != nil {
			c := envH.EvalBool(w)
			if p != nil {
				p = r.tb().Implies(c, p)
			}
			q = r.tb().Implies(c, q)
		}
		if p != nil {
			r.oblige(cur, "apply", fmt.Sprintf("loop%d.%d:%s", li.Ordinal, i+1, u.Name), p, h.Instrs[0].Pos(), "premise of "+u.String()+" at the loop head", nil)
		}
		r.assume(cur, q)
	}
	if li.Spec.Dec != nil {
		d := envH.coerceConst(envH.Eval(li.Spec.Dec), types.Typ[types.Int])
		li.decAtHeader = r.toInt64(r.scalar(d.V), d.T)
	}
	if li.Spec.Progress != nil {
		d := envH.coerceConst(envH.Eval(li.Spec.Progress), types.Typ[types.Int])
		li.progAtHeader = r.toInt64(r.scalar(d.V), d.T)
	}
	return cur
}

type joined struct {
	st   *State
	phis map[*ssa.Phi]Val
}

func (r *FnRun) joinBlockVals(b *ssa.BasicBlock, edges []edge) joined {
	var sts []*State
	for _, e := range edges {
		sts = append(sts, e.st)
	}
	phis := map[*ssa.Phi]Val{}
	for _, ins := range b.Instrs {
		phi, ok := ins.(*ssa.Phi)
		if !ok {
			break
		}
		var v Val
		first := true
		for i := len(edges) - 1; i >= 0; i-- {
			pi := predIndex(b, edges[i].pred)
			ev := r.val(phi.Edges[pi])
			if first {
				v = ev
				first = false
			} else {
				v = r.e.iteVal(edges[i].st.PC, r.normVal(ev), r.normVal(v))
			}
		}
		phis[phi] = v
	}
	return joined{st: r.e.mergeStates(sts), phis: phis}
}

func (r *FnRun) loopEnv(st *State, phiOverride map[*ssa.Phi]Val) *Env {
	env := r.rootEnvFor(st)
	env.phiOverride = phiOverride
	env.inLoop = true
	return env
}

// rootEnvFor: environment with the function's parameters and lets, evaluating in state st (old = entry).
func (r *FnRun) rootEnvFor(st *State) *Env {
	var base *Env
	if r.env != nil {
		base = r.env
	} else {
		// inlined body: parameters by name
		base = r.newEnv(st, r.rootEntry())
		for _, p := range r.fn.Params {
			base.vars[p.Name()] = CV{V: r.vals[p], T: p.Type()}
		}
	}
	env := base.child()
	env.cur = st
	env.old = r.rootEntry()
	for n, v := range r.loopLets {
		env.vars[n] = v
	}
	return env
}

func (r *FnRun) backEdge(li *loopInfo, from *ssa.BasicBlock, st *State) {
	tb := r.tb()
	h := li.Header
	over := map[*ssa.Phi]Val{}
	pi := predIndex(h, from)
	for _, ins := range h.Instrs {
		phi, ok := ins.(*ssa.Phi)
		if !ok {
			break
		}
		over[phi] = r.val(phi.Edges[pi])
	}
	env := r.loopEnv(st, over)
	for i, sa := range li.Spec.StepAsserts {
		g := env.EvalBool(sa.E)
		if r.root.wantClause(sa) {
			r.oblige(st, "step-assert", fmt.Sprintf("loop%d.%d", li.Ordinal, i+1), g, h.Instrs[0].Pos(), "checkpoint at the back edge: "+sa.Text, sa.Tags)
		}
		r.assume(st, g)
	}
	for i, inv := range li.Spec.Inv {
		if !r.root.wantClause(inv) {
			continue
		}
		g := env.EvalBool(inv.E)
		r.oblige(st, "inv-step", fmt.Sprintf("loop%d.%d", li.Ordinal, i+1), g, h.Instrs[0].Pos(), "loop invariant preserved: "+inv.Text, inv.Tags)
	}
	if li.Spec.Dec != nil {
		d := env.coerceConst(env.Eval(li.Spec.Dec), types.Typ[types.Int])
		dn := r.toInt64(r.scalar(d.V), d.T)
		g := tb.And(tb.SLe(tb.BVI(64, 0), li.decAtHeader), tb.SLt(dn, li.decAtHeader))
		r.oblige(st, "dec", fmt.Sprintf("loop%d", li.Ordinal), g, h.Instrs[0].Pos(), "loop measure is bounded below and decreases: "+li.Spec.Dec.String(), []string{"C06"})
	} else if r.root.panics {
		r.oblige(st, "dec", fmt.Sprintf("loop%d", li.Ordinal), tb.False(), h.Instrs[0].Pos(), "loop has no decreases clause", []string{"C06"})
	}
	if li.Spec.Progress != nil && r.root.panics {
		d := env.coerceConst(env.Eval(li.Spec.Progress), types.Typ[types.Int])
		dn := r.toInt64(r.scalar(d.V), d.T)
		r.oblige(st, "trip-bound", fmt.Sprintf("loop%d", li.Ordinal), tb.SGt(dn, li.progAtHeader), h.Instrs[0].Pos(), "every iteration consumes input: "+li.Spec.Progress.String()+" strictly increases", []string{"C06"})
	}
}

// loopMods computes what the loop body may modify.
func (r *FnRun) loopMods(li *loopInfo) []ModTarget {
	var out []ModTarget
	seenLocal := map[*ssa.Alloc]bool{}
	var blocks []*ssa.BasicBlock
	for b := range li.Body {
		blocks = append(blocks, b)
	}
	sort.Slice(blocks, func(i, j int) bool { return blocks[i].Index < blocks[j].Index })
	for _, b := range blocks {
		for _, ins := range b.Instrs {
			ms := r.instrMods(ins, li, seenLocal, 0)
			if os.Getenv("GOVC_DEBUG_MODS") != "" {
				for _, m := range ms {
					fmt.Fprintf(os.Stderr, "loopmods loop%d: %s -> %s %s %s\n", li.Ordinal, ins.String(), m.Kind, m.Key, m.Name)
				}
			}
			out = append(out, ms...)
		}
	}
	return out
}

func (r *FnRun) definedOutside(v ssa.Value, li *loopInfo) bool {
	if _, ok := r.vals[v]; ok {
		if ins, isIns := v.(ssa.Instruction); isIns {
			return !li.Body[ins.Block()]
		}
		return true
	}
	switch v.(type) {
	case *ssa.Const, *ssa.Global, *ssa.Parameter:
		return true
	}
	return false
}

func (r *FnRun) instrMods(ins ssa.Instruction, li *loopInfo, seenLocal map[*ssa.Alloc]bool, depth int) []ModTarget {
	switch x := ins.(type) {
	case *ssa.Store:
		return r.storeMods(x.Addr, li, seenLocal)
	case *ssa.MapUpdate:
		return []ModTarget{{Kind: "map", Name: strings.TrimPrefix(mapTypeKey(x.Map.Type().Underlying()), "map:")}}
	case *ssa.Next:
		return []ModTarget{{Kind: "ghost", Name: "iterpos:" + x.Iter.Name()}}
	case *ssa.Alloc:
		switch r.allocKind[x] {
		case akLocal:
			if !seenLocal[x] {
				seenLocal[x] = true
				return []ModTarget{{Kind: "local", Name: x.Name(), Alloc: x}}
			}
		case akRaw:
			return []ModTarget{{Kind: "M"}}
		case akBytes:
			return []ModTarget{{Kind: "BH"}}
		case akHeap:
			return []ModTarget{{Kind: "heaptype", ObjT: x.Type().(*types.Pointer).Elem()}}
		}
	case *ssa.MakeSlice:
		return []ModTarget{{Kind: "BH"}}
	case *ssa.Convert:
		if isString(x.Type()) != isString(x.X.Type()) && (isByteSlice(x.Type()) || isByteSlice(x.X.Type())) {
			return []ModTarget{{Kind: "BH"}}
		}
	case *ssa.Defer:
		return r.callMods(&x.Call, li, seenLocal, depth)
	case *ssa.Call:
		return r.callMods(&x.Call, li, seenLocal, depth)
	}
	return nil
}

func (r *FnRun) callMods(cc *ssa.CallCommon, li *loopInfo, seenLocal map[*ssa.Alloc]bool, depth int) []ModTarget {
	if b, ok := cc.Value.(*ssa.Builtin); ok {
		switch b.Name() {
		case "append":
			if isByteSlice(cc.Args[0].Type()) {
				return []ModTarget{{Kind: "BH"}}
			}
			return []ModTarget{{Kind: "heaptype", ObjT: cc.Args[0].Type().Underlying().(*types.Slice).Elem()}}
		case "copy":
			return []ModTarget{{Kind: "BH"}, {Kind: "M"}}
		}
		return nil
	}
	var c *Contract
	var callee *ssa.Function
	if cc.IsInvoke() {
		c = r.e.specs.Ifaces[ifaceKey(cc.Value.Type())+"."+cc.Method.Name()]
	} else if callee = cc.StaticCallee(); callee != nil {
		if strings.HasSuffix(callee.String(), "wrapnilchk") {
			return nil
		}
		c = r.e.contractFor(callee)
	} else {
		c = r.e.specs.Ifaces["funcval "+funcValKey(cc.Value)]
	}
	if c != nil && !c.Inline {
		if !c.HasMod {
			return []ModTarget{{Kind: "all"}}
		}
		// try a precise resolution with the values available now; fall back to whole arrays
		var out []ModTarget
		for _, m := range c.Modifies {
			out = append(out, r.staticMod(m, c, cc, callee, li)...)
		}
		if len(c.Emits) > 0 {
			out = append(out, ModTarget{Kind: "trace"})
		}
		return out
	}
	if callee != nil && len(callee.Blocks) > 0 && depth < maxInlineDepth && (r.e.inRepo(callee) || (c != nil && c.Inline)) {
		var out []ModTarget
		sub := &FnRun{root: r.root, e: r.e, fn: callee, vals: map[ssa.Value]Val{}, names: map[string]ssa.Value{}}
		sub.classifyAllocs()
		for _, b := range callee.Blocks {
			for _, ins := range b.Instrs {
				for _, m := range sub.instrMods(ins, &loopInfo{Body: map[*ssa.BasicBlock]bool{}}, map[*ssa.Alloc]bool{}, depth+1) {
					if m.Kind == "local" {
						continue
					}
					m.Addr, m.A, m.N, m.Base = nil, nil, nil, nil // no precise info across the inlined boundary
					out = append(out, m)
				}
			}
		}
		return out
	}
	return []ModTarget{{Kind: "all"}}
}

// staticMod resolves a callee modifies target at a call inside a loop, before the loop body has been executed.
func (r *FnRun) staticMod(m string, c *Contract, cc *ssa.CallCommon, callee *ssa.Function, li *loopInfo) []ModTarget {
	m = strings.TrimSpace(m)
	switch {
	case m == "*":
		return []ModTarget{{Kind: "all"}}
	case m == "M" || strings.HasPrefix(m, "M["):
		return []ModTarget{{Kind: "M"}}
	case m == "BH" || strings.HasPrefix(m, "BH["):
		return []ModTarget{{Kind: "BH"}}
	case m == "trace":
		return []ModTarget{{Kind: "trace"}}
	case strings.HasPrefix(m, "ghost "):
		return []ModTarget{{Kind: "ghost", Name: strings.TrimSpace(strings.TrimPrefix(m, "ghost "))}}
	case strings.HasPrefix(m, "map "):
		return []ModTarget{{Kind: "map", Name: strings.TrimSpace(strings.TrimPrefix(m, "map "))}}
	case strings.HasPrefix(m, "heap "):
		return []ModTarget{{Kind: "field", Key: strings.TrimSpace(strings.TrimPrefix(m, "heap "))}}
	case strings.HasPrefix(m, "type "):
		var from *types.Package
		if sp := r.e.ssaPkgs[c.Pkg]; sp != nil {
			from = sp.Pkg
		}
		if t := r.e.parseTypeName(from, strings.TrimSpace(strings.TrimPrefix(m, "type "))); t != nil {
			return []ModTarget{{Kind: "heaptype", ObjT: t}}
		}
		return []ModTarget{{Kind: "all"}}
	}
	// x.f , x.f.g ... or *x with x a parameter name
	star := strings.HasPrefix(m, "*")
	ex := mustParse(strings.TrimPrefix(m, "*"))
	var path []string
	cur := ex
	for cur.Kind == "field" {
		path = append([]string{cur.Name}, path...)
		cur = cur.Args[0]
	}
	if cur.Kind != "ident" || (star && len(path) > 0) || (!star && len(path) == 0) {
		return []ModTarget{{Kind: "all"}}
	}
	recvName := cur.Name
	// locate the argument
	var argV ssa.Value
	var argT types.Type
	if cc.IsInvoke() {
		if recvName == "this" {
			return []ModTarget{{Kind: "all"}}
		}
		names := r.e.ifaceParamNames(ifaceKey(cc.Value.Type()) + "." + cc.Method.Name())
		for i, n := range names {
			if n == recvName && i < len(cc.Args) {
				argV, argT = cc.Args[i], cc.Args[i].Type()
			}
		}
	} else if callee != nil {
		for i, p := range callee.Params {
			if p.Name() == recvName && i < len(cc.Args) {
				argV, argT = cc.Args[i], cc.Args[i].Type()
			}
		}
	} else {
		sig := cc.Value.Type().Underlying().(*types.Signature)
		for i := 0; i < sig.Params().Len(); i++ {
			if sig.Params().At(i).Name() == recvName {
				argV, argT = cc.Args[i], cc.Args[i].Type()
			}
		}
	}
	if argV == nil {
		return []ModTarget{{Kind: "all"}}
	}
	pt, ok := argT.Underlying().(*types.Pointer)
	if !ok {
		return []ModTarget{{Kind: "all"}}
	}
	var addr *Term
	if r.definedOutside(argV, li) {
		if v, ok := r.vals[argV]; ok {
			if p := r.asPtr(v, argT); p.Kind == PObj {
				addr = p.Addr
			} else if p.Kind == PRaw {
				return []ModTarget{{Kind: "M"}}
			}
		}
	}
	if star {
		if addr != nil {
			return []ModTarget{{Kind: "obj", Addr: addr, ObjT: pt.Elem()}}
		}
		return []ModTarget{{Kind: "heaptype", ObjT: pt.Elem()}}
	}
	// walk the field path; intermediate pointers are read from the loop-entry heap (checked afterwards not to be modified in the loop)
	curT := pt.Elem()
	var viaKeys []string
	for hop, field := range path {
		su, ok := curT.Underlying().(*types.Struct)
		if !ok {
			return []ModTarget{{Kind: "all"}}
		}
		found := false
		for i := 0; i < su.NumFields(); i++ {
			if su.Field(i).Name() != field {
				continue
			}
			found = true
			ft := su.Field(i).Type()
			if hop == len(path)-1 {
				if _, isBA := isByteArray(ft); isBA {
					return []ModTarget{{Kind: "BH"}}
				}
				return []ModTarget{{Kind: "field", Key: fieldKey(curT, i), FT: ft, Addr: addr, Via: viaKeys}}
			}
			if p2, isP := ft.Underlying().(*types.Pointer); isP {
				if addr != nil && r.loopEntryState != nil {
					k := fieldKey(curT, i)
					addr = r.tb().Select(r.e.heapArr(r.loopEntryState, k, BV64), addr)
					viaKeys = append(viaKeys, k)
				} else {
					addr = nil
				}
				curT = p2.Elem()
			} else {
				addr = nil
				curT = ft
			}
			_ = hop
		}
		if !found {
			return []ModTarget{{Kind: "all"}}
		}
	}
	return []ModTarget{{Kind: "all"}}
}

// storeMods classifies the target of a store by the static definition chain of its address.
func (r *FnRun) storeMods(addr ssa.Value, li *loopInfo, seenLocal map[*ssa.Alloc]bool) []ModTarget {
	switch a := addr.(type) {
	case *ssa.Alloc:
		switch r.allocKind[a] {
		case akLocal:
			return []ModTarget{{Kind: "local", Alloc: a}}
		case akRaw:
			return []ModTarget{{Kind: "M"}}
		case akBytes:
			return []ModTarget{{Kind: "BH"}}
		default:
			return []ModTarget{{Kind: "heaptype", ObjT: a.Type().(*types.Pointer).Elem()}}
		}
	case *ssa.FieldAddr:
		rootK := r.ptrRootKind(a.X)
		switch rootK {
		case "local":
			return r.storeMods(rootAlloc(a.X), li, seenLocal)
		case "raw":
			return []ModTarget{{Kind: "M"}}
		case "bytes":
			return []ModTarget{{Kind: "BH"}}
		}
		stt := a.X.Type().Underlying().(*types.Pointer).Elem()
		su := stt.Underlying().(*types.Struct)
		ft := su.Field(a.Field).Type()
		if _, isS := ft.Underlying().(*types.Struct); isS {
			return []ModTarget{{Kind: "heaptype", ObjT: ft}}
		}
		if _, isBA := isByteArray(ft); isBA {
			return []ModTarget{{Kind: "BH"}}
		}
		var at *Term
		if r.definedOutside(a.X, li) {
			if v, ok := r.vals[a.X]; ok {
				if p := r.asPtr(v, a.X.Type()); p.Kind == PObj {
					at = p.Addr
				}
			}
		}
		return []ModTarget{{Kind: "field", Key: fieldKey(stt, a.Field), FT: ft, Addr: at}}
	case *ssa.IndexAddr:
		switch r.ptrRootKind(a.X) {
		case "raw":
			return []ModTarget{{Kind: "M"}}
		case "local":
			return r.storeMods(rootAlloc(a.X), li, seenLocal)
		}
		if sl, ok := a.X.Type().Underlying().(*types.Slice); ok {
			if isByteSlice(a.X.Type()) {
				if v, ok := r.vals[a.X]; ok {
					if sv, isS := v.(SliceV); isS && sv.Raw {
						return []ModTarget{{Kind: "M"}}
					}
				}
				return []ModTarget{{Kind: "BH"}}
			}
			return []ModTarget{{Kind: "heaptype", ObjT: sl.Elem()}}
		}
		if pt, ok := a.X.Type().Underlying().(*types.Pointer); ok {
			if at, ok := pt.Elem().Underlying().(*types.Array); ok {
				if _, isBA := isByteArray(pt.Elem()); !isBA {
					// element of a (heap) array of non-byte elements, e.g. the varargs array of an append
					return []ModTarget{{Kind: "heaptype", ObjT: at.Elem()}}
				}
			}
		}
		return []ModTarget{{Kind: "BH"}}
	case *ssa.Convert:
		return []ModTarget{{Kind: "M"}}
	case *ssa.ChangeType:
		return r.storeMods(a.X, li, seenLocal)
	case *ssa.Call:
		// e.g. unsafe.Add
		if b, ok := a.Call.Value.(*ssa.Builtin); ok && b.Name() == "Add" {
			return []ModTarget{{Kind: "M"}}
		}
	case *ssa.Global:
		return []ModTarget{{Kind: "all"}}
	}
	// pointer value (param, phi, load): typed object
	if pt, ok := addr.Type().Underlying().(*types.Pointer); ok {
		if r.ptrRootKind(addr) == "raw" {
			return []ModTarget{{Kind: "M"}}
		}
		return []ModTarget{{Kind: "heaptype", ObjT: pt.Elem()}}
	}
	return []ModTarget{{Kind: "all"}}
}

func rootAlloc(v ssa.Value) ssa.Value {
	for {
		switch a := v.(type) {
		case *ssa.FieldAddr:
			v = a.X
		case *ssa.IndexAddr:
			v = a.X
		case *ssa.ChangeType:
			v = a.X
		default:
			return v
		}
	}
}

func (r *FnRun) ptrRootKind(v ssa.Value) string {
	v = rootAlloc(v)
	switch a := v.(type) {
	case *ssa.Alloc:
		switch r.allocKind[a] {
		case akLocal:
			return "local"
		case akRaw:
			return "raw"
		case akBytes:
			return "bytes"
		}
		return "heap"
	case *ssa.Convert:
		if b, ok := a.X.Type().Underlying().(*types.Basic); ok && b.Kind() == types.UnsafePointer {
			return "raw"
		}
	case *ssa.Call:
		if b, ok := a.Call.Value.(*ssa.Builtin); ok && b.Name() == "Add" {
			return "raw"
		}
	case *ssa.Phi:
		for _, e := range a.Edges {
			if e != v {
				if k := r.ptrRootKindNoPhi(e); k == "raw" {
					return "raw"
				}
			}
		}
	}
	return "typed"
}

func (r *FnRun) ptrRootKindNoPhi(v ssa.Value) string {
	v = rootAlloc(v)
	if _, ok := v.(*ssa.Phi); ok {
		return "typed"
	}
	return r.ptrRootKind(v)
}

func (r *FnRun) applyLoopHavoc(cur, pre *State, mods []ModTarget, li *loopInfo) {
	tb := r.tb()
	var rest []ModTarget
	for _, m := range mods {
		switch m.Kind {
		case "local":
			if m.Alloc != nil {
				if old, ok := pre.Locals[m.Alloc]; ok {
					t := m.Alloc.Type().(*types.Pointer).Elem()
					nv := r.e.freshVal(t, "lv!"+m.Alloc.Name())
					_ = old
					cur.Locals[m.Alloc] = nv
					r.typeInvariant(nv, t)
				}
			}
		case "heaptype":
			for _, lk := range r.typeLeafKeys(m.ObjT) {
				old := r.e.heapArr(pre, lk.key, lk.sort)
				cur.Heap[lk.key] = tb.Fresh("H:"+lk.key, old.Sort)
			}
		default:
			rest = append(rest, m)
		}
	}
	r.applyHavoc(cur, pre, rest)
	// trace: havoc arrays and length when events may be emitted in the loop
	for _, m := range mods {
		if m.Kind == "trace" || m.Kind == "all" {
			for _, n := range []string{"kind", "a", "b", "c", "d", "e", "f", "g", "h"} {
				cur.Ghost["trace."+n] = tb.Fresh("G:trace."+n, WordAr)
			}
			cur.Ghost["trace.arr"] = tb.Fresh("G:trace.arr", ObjAr)
			cur.Ghost["trace.len"] = tb.Fresh("G:trace.len", BV64)
			break
		}
	}
}

var _ = token.NoPos

// degradeImprecise: a precise target reached through pointer fields is only valid if those fields are not
// themselves modified in the loop; otherwise fall back to the whole array.
func (r *FnRun) degradeImprecise(mods []ModTarget) []ModTarget {
	modified := map[string]bool{}
	all := false
	for _, m := range mods {
		switch m.Kind {
		case "field":
			for _, s := range leafSuffixesOrEmpty(m.FT) {
				modified[m.Key+s] = true
			}
		case "heaptype", "obj":
			for _, lk := range r.typeLeafKeys(m.ObjT) {
				modified[lk.key] = true
			}
		case "all":
			all = true
		}
	}
	for i := range mods {
		for _, k := range mods[i].Via {
			if all || modified[k] {
				mods[i].Addr = nil
			}
		}
	}
	return mods
}

func leafSuffixesOrEmpty(t types.Type) []string {
	if t == nil {
		return []string{""}
	}
	var out []string
	for _, s := range leafSuffixes(t) {
		out = append(out, s.s)
	}
	return out
}

func hasTag(cl *Clause, t string) bool {
	for _, x := range cl.Tags {
		if x == t {
			return true
		}
	}
	return false
}
