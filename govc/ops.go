package main

// Operators, conversions, interfaces, maps.

import (
	"fmt"
	"go/token"
	"go/types"
	"math"
	"os"
	"sort"
	"strings"

	"golang.org/x/tools/go/ssa"
)

func init() {
	mathFloat32bits = math.Float32bits
	mathFloat64bits = math.Float64bits
}

func (r *FnRun) binop(st *State, op token.Token, a, b Val, ta, tbt types.Type, pos token.Pos, what string) Val {
	tb := r.tb()
	// comparisons on composite values
	switch op {
	case token.EQL, token.NEQ:
		eq := r.valuesEqual(st, a, b, ta)
		if op == token.NEQ {
			eq = tb.Not(eq)
		}
		return Scalar{eq}
	}
	if isString(ta) {
		if op == token.ADD {
			r.unsupported("string concatenation")
		}
		r.unsupported("string comparison %s", op)
	}
	x, y := r.scalar(a), r.scalar(b)
	if isBool(ta) {
		switch op {
		case token.LAND, token.AND:
			return Scalar{tb.And(x, y)}
		case token.LOR, token.OR:
			return Scalar{tb.Or(x, y)}
		}
		r.unsupported("bool op %s", op)
	}
	if isFloat(ta) {
		fx, fy := r.toFP(x), r.toFP(y)
		switch op {
		case token.LSS:
			return Scalar{tb.Raw("fp.lt", BoolSort, fx, fy)}
		case token.LEQ:
			return Scalar{tb.Raw("fp.leq", BoolSort, fx, fy)}
		case token.GTR:
			return Scalar{tb.Raw("fp.gt", BoolSort, fx, fy)}
		case token.GEQ:
			return Scalar{tb.Raw("fp.geq", BoolSort, fx, fy)}
		}
		r.unsupported("float arithmetic %s", op)
	}
	w, signed, ok := basicInfo(ta)
	if !ok {
		if isPointerLike(ta) {
			w, signed = 64, false
		} else {
			r.unsupported("binop %s on %s", op, ta)
		}
	}
	_ = w
	switch op {
	case token.ADD:
		return Scalar{tb.Add(x, y)}
	case token.SUB:
		return Scalar{tb.Sub(x, y)}
	case token.MUL:
		return Scalar{r.mulTerm(x, y)}
	case token.QUO, token.REM:
		if r.root.panics {
			r.oblige(st, "panic", "divzero", tb.Ne(y, tb.BVI(y.Sort.W, 0)), pos, what, []string{"C06"})
		}
		if signed {
			if op == token.QUO {
				return Scalar{tb.SDiv(x, y)}
			}
			return Scalar{tb.SRem(x, y)}
		}
		if op == token.QUO {
			return Scalar{tb.UDiv(x, y)}
		}
		return Scalar{tb.URem(x, y)}
	case token.AND:
		return Scalar{tb.BAnd(x, y)}
	case token.OR:
		return Scalar{tb.BOr(x, y)}
	case token.XOR:
		return Scalar{tb.BXor(x, y)}
	case token.AND_NOT:
		return Scalar{tb.BAnd(x, tb.BNot(y))}
	case token.SHL, token.SHR:
		// shift count: any integer type; negative signed count panics
		_, ysigned, _ := basicInfo(tbt)
		if ysigned && r.root.panics {
			r.oblige(st, "panic", "shiftneg", tb.SGe(y, tb.BVI(y.Sort.W, 0)), pos, what, []string{"C06"})
		}
		yy := y
		if yy.Sort.W < x.Sort.W {
			yy = tb.ZExt(yy, x.Sort.W)
		} else if yy.Sort.W > x.Sort.W {
			// saturate: counts >= width behave as width
			big := tb.UGe(yy, tb.BVI(yy.Sort.W, int64(x.Sort.W)))
			yy = tb.Ite(big, tb.BVI(x.Sort.W, int64(x.Sort.W)), tb.Extract(x.Sort.W-1, 0, yy))
		}
		if op == token.SHL {
			return Scalar{tb.Shl(x, yy)}
		}
		if signed {
			return Scalar{tb.AShr(x, yy)}
		}
		return Scalar{tb.LShr(x, yy)}
	case token.LSS:
		if signed {
			return Scalar{tb.SLt(x, y)}
		}
		return Scalar{tb.ULt(x, y)}
	case token.LEQ:
		if signed {
			return Scalar{tb.SLe(x, y)}
		}
		return Scalar{tb.ULe(x, y)}
	case token.GTR:
		if signed {
			return Scalar{tb.SGt(x, y)}
		}
		return Scalar{tb.UGt(x, y)}
	case token.GEQ:
		if signed {
			return Scalar{tb.SGe(x, y)}
		}
		return Scalar{tb.UGe(x, y)}
	}
	r.unsupported("binop %s", op)
	return nil
}

// mulTerm: multiplication by a constant stays exact; symbolic*symbolic is abstracted by umul (with axioms).
func (r *FnRun) mulTerm(x, y *Term) *Term {
	tb := r.tb()
	if x.IsConst() || y.IsConst() {
		return tb.Mul(x, y)
	}
	if x.Sort.W != 64 {
		return tb.Mul(x, y)
	}
	r.root.notes["symbolic 64x64 products abstracted as uninterpreted umul with axioms (zero, one, monotone-step)"] = true
	return r.e.umul(x, y)
}

func (e *Engine) umul(x, y *Term) *Term {
	return e.tb.App("umul", BV64, x, y)
}

func (r *FnRun) valuesEqual(st *State, a, b Val, t types.Type) *Term {
	tb := r.tb()
	switch x := a.(type) {
	case Scalar:
		if isFloat(t) {
			return tb.Raw("fp.eq", BoolSort, r.toFP(x.T), r.toFP(r.scalar(b)))
		}
		return tb.Eq(x.T, r.scalar(b))
	case PtrV:
		return tb.Eq(r.scalar(a), r.scalar(b))
	case IfaceV:
		y, ok := b.(IfaceV)
		if !ok {
			panic(unsupported("iface compared with non-iface"))
		}
		// comparison with nil: tag only
		if y.Tag.IsConst() && y.Tag.Val.Sign() == 0 {
			return tb.Eq(x.Tag, y.Tag)
		}
		if x.Tag.IsConst() && x.Tag.Val.Sign() == 0 {
			return tb.Eq(x.Tag, y.Tag)
		}
		return tb.And(tb.Eq(x.Tag, y.Tag), tb.Eq(x.Data, y.Data))
	case SliceV:
		y := b.(SliceV)
		if x.Cap != nil || y.Cap != nil {
			// slice == nil
			return tb.Eq(r.sliceDataWordOf(x), r.sliceDataWordOf(y))
		}
		return r.stringEq(st, x, y)
	case PSlice:
		y := b.(PSlice)
		return tb.Eq(x.Ptr, y.Ptr)
	case ArrV:
		y := b.(ArrV)
		var cs []*Term
		for i := int64(0); i < x.N; i++ {
			k := tb.BVI(64, i)
			cs = append(cs, tb.Eq(tb.Select(x.Arr, k), tb.Select(y.Arr, k)))
		}
		return tb.And(cs...)
	case StructV:
		y := b.(StructV)
		var cs []*Term
		su := t.Underlying().(*types.Struct)
		for i := range x.Fields {
			cs = append(cs, r.valuesEqual(st, x.Fields[i], y.Fields[i], su.Field(i).Type()))
		}
		return tb.And(cs...)
	}
	panic(unsupported(fmt.Sprintf("equality on %T", a)))
}

func (r *FnRun) sliceDataWordOf(s SliceV) *Term {
	// nil-ness of a slice: base==0 for ordinary slices
	if s.Raw {
		return s.Off
	}
	return s.Base
}

// stringEq: content equality. Against a constant string it expands byte-wise; otherwise an uninterpreted relation
// constrained by length equality.
func (r *FnRun) stringEq(st *State, x, y SliceV) *Term {
	tb := r.tb()
	if y.Len.IsConst() || x.Len.IsConst() {
		if x.Len.IsConst() {
			x, y = y, x
		}
		n := y.Len.Val.Int64()
		if n <= 64 {
			cs := []*Term{tb.Eq(x.Len, y.Len)}
			for i := int64(0); i < n; i++ {
				k := tb.BVI(64, i)
				cs = append(cs, tb.Eq(r.byteAt(st, x, k), r.byteAt(st, y, k)))
			}
			return tb.And(cs...)
		}
	}
	k := tb.BoundVar("k", BV64)
	body := tb.Implies(tb.ULt(k, x.Len), tb.Eq(r.byteAt(st, x, k), r.byteAt(st, y, k)))
	return tb.And(tb.Eq(x.Len, y.Len), tb.Forall([]*Term{k}, body))
}

func (r *FnRun) convert(st *State, v Val, from, to types.Type) Val {
	tb := r.tb()
	fu, tu := from.Underlying(), to.Underlying()
	// pointer <-> unsafe.Pointer <-> uintptr
	fb, fIsB := fu.(*types.Basic)
	tbb, tIsB := tu.(*types.Basic)
	_, fIsP := fu.(*types.Pointer)
	tp, tIsP := tu.(*types.Pointer)
	if tIsB && tbb.Kind() == types.UnsafePointer {
		switch p := v.(type) {
		case PtrV:
			switch p.Kind {
			case PRaw:
				return PtrV{Kind: PRaw, Addr: p.Addr, Alloc: p.Alloc}
			case PLocal:
				r.unsupported("unsafe.Pointer of non-escaping local (classification error)")
			default:
				return Scalar{r.e.ptrNum(p)}
			}
		case Scalar:
			return p
		}
	}
	if tIsP && fIsB && fb.Kind() == types.UnsafePointer {
		switch p := v.(type) {
		case PtrV:
			return PtrV{Kind: PRaw, Addr: p.Addr, T: tp.Elem(), Alloc: p.Alloc}
		case Scalar:
			return PtrV{Kind: PRaw, Addr: p.T, T: tp.Elem()}
		}
	}
	if fIsP && tIsP {
		return v
	}
	if tIsB && tbb.Kind() == types.Uintptr && fIsB && fb.Kind() == types.UnsafePointer {
		return Scalar{r.scalar(v)}
	}
	if tIsB && tbb.Kind() == types.UnsafePointer && fIsB && fb.Kind() == types.Uintptr {
		return Scalar{r.scalar(v)}
	}
	// string <-> []byte
	if isString(to) && isByteSlice(from) {
		s := v.(SliceV)
		return r.copyBytesObj(st, s, false)
	}
	if isByteSlice(to) && isString(from) {
		s := v.(SliceV)
		return r.copyBytesObj(st, s, true)
	}
	if isString(to) && isString(from) {
		return v
	}
	if isByteSlice(to) && isByteSlice(from) {
		return v
	}
	// numeric
	if fIsB && tIsB {
		x := r.scalar(v)
		ff, tf := isFloat(from), isFloat(to)
		fw, fs, _ := basicInfo(from)
		tw, ts, ok := basicInfo(to)
		if !ok {
			r.unsupported("convert %s -> %s", from, to)
		}
		switch {
		case !ff && !tf:
			if tw <= fw {
				return Scalar{tb.Extract(tw-1, 0, x)}
			}
			if fs {
				return Scalar{tb.SExt(x, tw)}
			}
			return Scalar{tb.ZExt(x, tw)}
		case ff && tf:
			if fw == tw {
				return v
			}
			fp := r.toFP(x)
			var conv *Term
			if tw == 32 {
				conv = tb.Raw("(_ to_fp 8 24) RNE", FP(32), fp)
			} else {
				conv = tb.Raw("(_ to_fp 11 53) RNE", FP(64), fp)
			}
			return Scalar{r.fpToBits(conv, tw)}
		case !ff && tf:
			var conv *Term
			opn := "(_ to_fp_unsigned 11 53) RNE"
			if fs {
				opn = "(_ to_fp 11 53) RNE"
			}
			if tw == 32 {
				opn = "(_ to_fp_unsigned 8 24) RNE"
				if fs {
					opn = "(_ to_fp 8 24) RNE"
				}
			}
			conv = tb.Raw(opn, FP(tw), x)
			return Scalar{r.fpToBits(conv, tw)}
		default:
			_ = ts
			r.unsupported("float to int conversion")
		}
	}
	if isString(to) {
		r.unsupported("conversion to string from %s", from)
	}
	r.unsupported("convert %s -> %s", from, to)
	return nil
}

// fpToBits: bits of an FP term. SMT-LIB has no fp->bv function; introduce a fresh bv constrained by to_fp(bits) == fp,
// with the canonical quiet NaN for NaN results (value-level for NaN payloads, see DESIGN section 10).
func (r *FnRun) fpToBits(fp *Term, w int) *Term {
	tb := r.tb()
	bits := tb.Fresh("fpbits", BV(w))
	var back *Term
	if w == 32 {
		back = tb.Raw("(_ to_fp 8 24)", FP(32), bits)
	} else {
		back = tb.Raw("(_ to_fp 11 53)", FP(64), bits)
	}
	r.addFact(tb.Raw("=", BoolSort, back, fp))
	return bits
}

// copyBytesObj models string(b) / []byte(s): a fresh object with equal content.
func (r *FnRun) copyBytesObj(st *State, s SliceV, withCap bool) SliceV {
	tb := r.tb()
	base := tb.Fresh("cp!"+r.fn.Name(), BV64)
	zero := tb.BVI(64, 0)
	// empty -> may be nil/zero base; keep fresh base but harmless
	r.freshBase(st, base)
	content := tb.CopyRange(r.zeroArr(), zero, r.sliceContent(st, s), s.Off, s.Len)
	st.BH = tb.Store(st.BH, base, content)
	out := SliceV{Base: base, Off: zero, Len: s.Len}
	if withCap {
		out.Cap = s.Len
	}
	return out
}

func (r *FnRun) makeInterface(st *State, v Val, t types.Type) Val {
	tb := r.tb()
	tag := r.e.typeTag(t)
	switch x := v.(type) {
	case PtrV:
		if x.Kind == PLocal {
			r.unsupported("interface of local address")
		}
		return IfaceV{Tag: tag, Data: r.e.ptrNum(x)}
	case Scalar:
		if isPointerLike(t) {
			return IfaceV{Tag: tag, Data: x.T}
		}
	case IfaceV:
		return x
	}
	// boxed value: data is an abstract box id determined by the leaves
	var ls []leaf
	leaves(v, "", &ls)
	var args []*Term
	for _, l := range ls {
		args = append(args, l.T)
	}
	var data *Term
	if len(args) == 0 {
		data = tb.App("box:"+typeKey(t), BV64)
	} else {
		data = tb.App("box:"+typeKey(t), BV64, args...)
	}
	// unboxing axioms at this site
	for i, l := range ls {
		r.addFact(tb.Eq(tb.App(fmt.Sprintf("unbox:%s:%d", typeKey(t), i), l.T.Sort, data), l.T))
	}
	return IfaceV{Tag: tag, Data: data}
}

// unbox rebuilds a value of concrete type t from interface data.
func (r *FnRun) unbox(data *Term, t types.Type) Val {
	tb := r.tb()
	if isPointerLike(t) {
		return Scalar{data}
	}
	proto := r.e.zeroVal(t)
	i := 0
	return mapVal(proto, func(z *Term) *Term {
		x := tb.App(fmt.Sprintf("unbox:%s:%d", typeKey(t), i), z.Sort, data)
		i++
		return x
	})
}

func (r *FnRun) execTypeAssert(st *State, x *ssa.TypeAssert) {
	tb := r.tb()
	iv, ok := r.val(x.X).(IfaceV)
	if !ok {
		r.unsupported("TypeAssert on %T", r.val(x.X))
	}
	var okT *Term
	var res Val
	if _, isI := x.AssertedType.Underlying().(*types.Interface); isI {
		okT = tb.And(tb.Ne(iv.Tag, tb.BVI(64, 0)), tb.App("implements:"+typeKey(x.AssertedType), BoolSort, iv.Tag))
		res = iv
	} else {
		okT = tb.Eq(iv.Tag, r.e.typeTag(x.AssertedType))
		res = r.unbox(iv.Data, x.AssertedType)
		r.linkAttrs(st, iv, x.AssertedType, okT)
	}
	if x.CommaOk {
		r.vals[x] = TupleV{Elems: []Val{res, Scalar{okT}}}
		return
	}
	if r.root.panics {
		r.oblige(st, "panic", "typeassert", okT, x.Pos(), describeInstr(x), []string{"C06"})
	}
	r.assume(st, okT)
	r.vals[x] = res
}

// ---------------- maps (abstract) ----------------
// A map value is a handle; contents are an uninterpreted function of (handle, key leaves, version).

func (r *FnRun) mapKeyOf(st *State, k Val, kt types.Type) *Term {
	tb := r.tb()
	switch x := k.(type) {
	case Scalar:
		if x.T.Sort == BoolSort {
			return tb.Ite(x.T, tb.BVI(64, 1), tb.BVI(64, 0))
		}
		if x.T.Sort.W == 64 {
			return x.T
		}
		return tb.ZExt(x.T, 64)
	case IfaceV:
		return tb.App("ifacekey", BV64, x.Tag, x.Data)
	case SliceV:
		// strings: key identity is content identity; constant strings use their canonical content
		if x.Base.Op == "var" && strings.HasPrefix(x.Base.Name, "strconst_") {
			return tb.App("strkey", BV64, tb.App("strcontent_"+strings.TrimPrefix(x.Base.Name, "strconst_"), ByteAr), x.Off, x.Len)
		}
		return tb.App("strkey", BV64, r.sliceContent(st, x), x.Off, x.Len)
	case PtrV:
		return r.e.ptrNum(x)
	}
	panic(unsupported(fmt.Sprintf("map key of %T", k)))
}

func mapTypeKey(t types.Type) string { return "map:" + typeKey(t) }

func (r *FnRun) mapVer(st *State, t types.Type) *Term {
	k := mapTypeKey(t)
	if v, ok := st.MapVer[k]; ok && v != nil {
		return v
	}
	v := r.tb().Var("MV0:"+k, BV64)
	st.MapVer[k] = v
	return v
}

func (r *FnRun) mapInitEmpty(st *State, t types.Type, h *Term) {
	// fresh map: no key present in the current version
	tb := r.tb()
	ver := r.mapVer(st, t)
	k := tb.BoundVar("k", BV64)
	has := tb.App("maphas:"+mapTypeKey(t), BoolSort, ver, h, k)
	r.addFact(tb.Forall([]*Term{k}, tb.Not(has), []*Term{has}))
}

func (r *FnRun) mapLookupVal(st *State, mt *types.Map, h, key *Term, prefix string) (Val, *Term) {
	tb := r.tb()
	ver := r.mapVer(st, mt)
	has := tb.App("maphas:"+mapTypeKey(mt), BoolSort, ver, h, key)
	proto := r.e.zeroVal(mt.Elem())
	i := 0
	val := mapVal(proto, func(z *Term) *Term {
		x := tb.App(fmt.Sprintf("mapval:%s:%d", mapTypeKey(mt), i), z.Sort, ver, h, key)
		i++
		return x
	})
	// absent keys read as zero
	res := r.e.iteVal(has, val, proto)
	return res, has
}

func (r *FnRun) execLookup(st *State, x *ssa.Lookup) {
	tb := r.tb()
	if isString(x.X.Type()) {
		s := r.val(x.X).(SliceV)
		idx := r.toInt64(r.scalar(r.val(x.Index)), x.Index.Type())
		r.boundsCheck(st, idx, s.Len, x.Pos(), describeInstr(x))
		r.vals[x] = Scalar{r.byteAt(st, s, idx)}
		return
	}
	mt := x.X.Type().Underlying().(*types.Map)
	h := r.scalar(r.val(x.X))
	r.guardCheck(st, x.X, false, x.Pos(), describeInstr(x))
	key := r.mapKeyOf(st, r.val(x.Index), mt.Key())
	val, has := r.mapLookupVal(st, mt, h, key, x.Name())
	// nil map reads as empty
	isNil := tb.Eq(h, tb.BVI(64, 0))
	has = tb.And(tb.Not(isNil), has)
	if x.CommaOk {
		r.vals[x] = TupleV{Elems: []Val{val, Scalar{has}}}
	} else {
		r.vals[x] = val
	}
}

func (r *FnRun) execMapUpdate(st *State, x *ssa.MapUpdate) {
	tb := r.tb()
	mt := x.Map.Type().Underlying().(*types.Map)
	h := r.scalar(r.val(x.Map))
	if r.root.panics {
		r.oblige(st, "panic", "nilmap", tb.Ne(h, tb.BVI(64, 0)), x.Pos(), describeInstr(x), []string{"C06"})
	}
	r.guardCheck(st, x.Map, true, x.Pos(), describeInstr(x))
	key := r.mapKeyOf(st, r.val(x.Key), mt.Key())
	old := r.mapVer(st, mt)
	nv := tb.Fresh("MV", BV64)
	st.MapVer[mapTypeKey(mt)] = nv
	mk := mapTypeKey(mt)
	// new version: (h,key) present with the value; everything else as before
	r.assume(st, tb.App("maphas:"+mk, BoolSort, nv, h, key))
	var ls []leaf
	leaves(r.val(x.Value), "", &ls)
	for i, l := range ls {
		r.assume(st, tb.Eq(tb.App(fmt.Sprintf("mapval:%s:%d", mk, i), l.T.Sort, nv, h, key), l.T))
	}
	hh := tb.BoundVar("h", BV64)
	kk := tb.BoundVar("k", BV64)
	same := tb.And(tb.Eq(hh, h), tb.Eq(kk, key))
	hasN := tb.App("maphas:"+mk, BoolSort, nv, hh, kk)
	hasO := tb.App("maphas:"+mk, BoolSort, old, hh, kk)
	r.assume(st, tb.Forall([]*Term{hh, kk}, tb.Implies(tb.Not(same), tb.Eq(hasN, hasO)), []*Term{hasN}))
	for i, l := range ls {
		vn := tb.App(fmt.Sprintf("mapval:%s:%d", mk, i), l.T.Sort, nv, hh, kk)
		vo := tb.App(fmt.Sprintf("mapval:%s:%d", mk, i), l.T.Sort, old, hh, kk)
		r.assume(st, tb.Forall([]*Term{hh, kk}, tb.Implies(tb.Not(same), tb.Eq(vn, vo)), []*Term{vn}))
	}
}

// ---------------- range over string ----------------
// Modelled as an iterator yielding strictly increasing byte indices; the rune equals the byte for ASCII
// and is an arbitrary value >= 0x80 otherwise.

type rangeIter struct {
	s   SliceV
	pos *Term // next index
}

func (r *FnRun) execRange(st *State, x *ssa.Range) {
	if !isString(x.X.Type()) {
		r.unsupported("range over %s", x.X.Type())
	}
	r.vals[x] = Scalar{r.tb().BVI(64, 0)}
	st.Ghost["iterpos:"+x.Name()] = r.tb().BVI(64, 0)
	if r.iters == nil {
		r.iters = map[ssa.Value]SliceV{}
	}
	r.iters[x] = r.val(x.X).(SliceV)
}

func (r *FnRun) execNext(st *State, x *ssa.Next) {
	tb := r.tb()
	if !x.IsString {
		r.unsupported("map iteration")
	}
	s, ok := r.iters[x.Iter]
	if !ok {
		r.unsupported("Next on unknown iterator")
	}
	// iterator position is ghost state per Range instruction
	key := "iterpos:" + x.Iter.Name()
	pos := r.e.ghost(st, key, BV64)
	more := tb.SLt(pos, s.Len)
	b := r.byteAt(st, s, pos)
	ascii := tb.ULt(b, tb.BVI(8, 0x80))
	runeV := tb.Fresh("rune", BV32)
	width := tb.Fresh("rw", BV64)
	r.assume(st, tb.Implies(tb.And(more, ascii), tb.And(tb.Eq(runeV, tb.ZExt(b, 32)), tb.Eq(width, tb.BVI(64, 1)))))
	r.assume(st, tb.Implies(tb.And(more, tb.Not(ascii)), tb.And(tb.SGe(runeV, tb.BVI(32, 0x80)), tb.SGe(width, tb.BVI(64, 1)), tb.SLe(width, tb.BVI(64, 4)), tb.SLe(tb.Add(pos, width), s.Len))))
	st.Ghost[key] = tb.Ite(more, tb.Add(pos, width), pos)
	r.vals[x] = TupleV{Elems: []Val{Scalar{more}, Scalar{pos}, Scalar{runeV}}}
}

var _ = ssa.Value(nil)

// linkAttrs: when a type assertion to concrete type T succeeds on interface value iv, the per-type ghost attributes
// of iv (uninterpreted while its dynamic type is symbolic) equal their definitions for T.
func (r *FnRun) linkAttrs(st *State, iv IfaceV, T types.Type, okT *Term) {
	tb := r.tb()
	ct := r.e.typeTag(T)
	ta, _ := r.e.attrsForTag(ct)
	if ta == nil || iv.Tag.IsConst() {
		return
	}
	defer func() { recover() }() // attributes that cannot be evaluated here are simply not linked
	var names []string
	for n, ad := range ta.Attrs {
		if len(ad.Params) == 0 {
			names = append(names, n)
		}
	}
	sort.Strings(names)
	env := r.rootEnvFor(st)
	env.vars["iv__sym"] = CV{V: iv, T: specTypes["iface"]}
	env.vars["iv__con"] = CV{V: IfaceV{Tag: ct, Data: iv.Data}, T: specTypes["iface"]}
	for _, n := range names {
		mk := func(v string) *Expr {
			return &Expr{Kind: "call", Name: n, Args: []*Expr{{Kind: "ident", Name: v}}}
		}
		a := env.Eval(mk("iv__sym"))
		b := env.Eval(mk("iv__con"))
		at, bt := r.scalar(a.V), r.scalar(b.V)
		if at.Sort != bt.Sort {
			continue
		}
		r.assume(st, tb.Implies(okT, tb.Eq(at, bt)))
	}
}

// guardCheck: an access to a package-level map declared `guard M by MU` needs MU held by the executing goroutine:
// write-locked for an update, read- or write-locked for a lookup (C12 lock discipline).
func (r *FnRun) guardCheck(st *State, m ssa.Value, write bool, pos token.Pos, what string) {
	u, ok := m.(*ssa.UnOp)
	if !ok {
		return
	}
	g, ok := u.X.(*ssa.Global)
	if !ok || g.Pkg == nil {
		return
	}
	mu, ok := r.e.specs.Guards[g.Pkg.Pkg.Path()+"."+g.Name()]
	if os.Getenv("GOVC_GUARDDBG") != "" {
		fmt.Fprintf(os.Stderr, "guardCheck %s -> %v %v (have %v)\n", g.Pkg.Pkg.Path()+"."+g.Name(), mu, ok, r.e.specs.Guards)
	}
	if !ok {
		return
	}
	i := strings.LastIndex(mu, ".")
	sp := r.e.ssaPkgs[mu[:i]]
	if sp == nil {
		return
	}
	mg, ok := sp.Members[mu[i+1:]].(*ssa.Global)
	if !ok {
		panic(cerr("guard: unknown mutex variable %s", mu))
	}
	tb := r.tb()
	addr := r.e.gaddr(mg)
	held := tb.Select(r.e.ghost(st, "lock.held", BoolAr), addr)
	goal := held
	if !write {
		goal = tb.Or(held, tb.Select(r.e.ghost(st, "lock.rheld", BoolAr), addr))
	}
	kind := "read"
	if write {
		kind = "write"
	}
	r.oblige(st, "guard", g.Name(), goal, pos, what+"  "+kind+" access to "+g.Name()+" with "+mg.Name()+" held", []string{"C12"})
}
