package main

// Solver portfolio.

import (
	"bytes"
	"context"
	"fmt"
	"os"
	"os/exec"
	"path/filepath"
	"strings"
	"sync"
	"time"
)

type SolveResult struct {
	Status  string // unsat sat unknown timeout error trivial
	Phase   string
	Solver  string
	Seconds float64
	Model   string
	Output  string
	All     map[string]string // per solver status (thorough)
}

type solverDef struct {
	Name string
	Args func(file string, timeoutS int) []string
}

// z3bb: z3 5.1 with an explicit simplify/solve-eqs/bit-blast pipeline; decides some arithmetic-heavy QF goals
// the default strategies time out on. It reads a copy of the script with (check-sat) replaced.
const bbTactic = "(check-sat-using (then simplify propagate-values solve-eqs elim-uncnstr simplify bit-blast sat))"

func bbFile(f string) string {
	b, err := os.ReadFile(f)
	if err != nil {
		return f
	}
	s := strings.Replace(string(b), "(check-sat)", bbTactic, 1)
	out := strings.TrimSuffix(f, ".smt2") + ".bb.smt2"
	os.WriteFile(out, []byte(s), 0o644)
	return out
}

var solvers = []solverDef{
	{"z3-new-bb", func(f string, t int) []string { return []string{"z3-new", "-smt2", fmt.Sprintf("-T:%d", t), bbFile(f)} }},
	{"z3-new", func(f string, t int) []string { return []string{"z3-new", "-smt2", fmt.Sprintf("-T:%d", t), f} }},
	{"cvc5", func(f string, t int) []string {
		return []string{"cvc5", "--lang=smt2", fmt.Sprintf("--tlimit=%d", t*1000), f}
	}},
	{"z3", func(f string, t int) []string { return []string{"z3", "-smt2", fmt.Sprintf("-T:%d", t), f} }},
}

type SolveCfg struct {
	TimeoutS  int
	Dir       string
	All       bool // run all solvers to completion and compare
	Workers   int
	Seed      int
	IgnoreSat bool                   // quantified queries: a solver's `sat` is not a verdict (incomplete quantifier reasoning; z3 4.8.12 has answered sat on refutable queries), only a candidate model
	Short     func(name string) bool // obligations that get a short timeout (open known findings: reported either way)
}

func runSolver(ctx context.Context, sd solverDef, file string, timeoutS int) (status, out string, secs float64) {
	args := sd.Args(file, timeoutS)
	cctx, cancel := context.WithTimeout(ctx, time.Duration(timeoutS+5)*time.Second)
	defer cancel()
	cmd := exec.CommandContext(cctx, args[0], args[1:]...)
	var buf bytes.Buffer
	cmd.Stdout = &buf
	cmd.Stderr = &buf
	t0 := time.Now()
	_ = cmd.Run()
	secs = time.Since(t0).Seconds()
	out = buf.String()
	first := strings.TrimSpace(strings.SplitN(out, "\n", 2)[0])
	switch first {
	case "unsat", "sat", "unknown":
		if sd.Name == "z3-new-bb" && first != "unsat" {
			return "unknown", out, secs // the pipeline is only trusted for refutations
		}
		return first, out, secs
	case "timeout":
		return "timeout", out, secs
	}
	if cctx.Err() != nil {
		return "timeout", out, secs
	}
	if strings.Contains(out, "timeout") || strings.Contains(out, "interrupted") {
		return "timeout", out, secs
	}
	return "error", out, secs
}

func (e *Engine) Solve(obls []*Obligation, cfg SolveCfg) {
	if cfg.Workers <= 0 {
		cfg.Workers = 6
	}
	os.RemoveAll(cfg.Dir)
	os.MkdirAll(cfg.Dir, 0o755)
	type job struct {
		o        *Obligation
		qf, full string
	}
	var jobs []job
	tPrep := time.Now()
	defer func() { _ = tPrep }()
	for i, o := range obls {
		if !o.Cover && o.Goal.IsTrue() {
			o.Result = &SolveResult{Status: "unsat", Solver: "syntactic"}
			continue
		}
		base := filepath.Join(cfg.Dir, fmt.Sprintf("q%04d_%s", i, sanitize(o.Name)))
		if len(base) > 180 {
			base = base[:180]
		}
		o.Hyps = append(o.Hyps, e.axioms...) // distinct addresses of package-level variables
		if os.Getenv("GOVC_NO_UZ") == "" {
			o.Hyps = append(o.Hyps, e.umulZeroFacts(o)...)
		}
		if os.Getenv("GOVC_NO_CM") == "" {
			o.Hyps = append(o.Hyps, e.constMulFacts(o)...)
		}
		// lemma premises and checkpoints about plain arithmetic rarely need the quantified (memory) hypotheses: a
		// first attempt without them is sound (fewer hypotheses) and usually immediate
		if o.Kind == "apply" && !o.Cover {
			var light []*Term
			qc := map[*Term]bool{}
			for _, h := range o.Hyps {
				if !hasQuant(h, qc) {
					light = append(light, h)
				}
			}
			lf := filepath.Join(cfg.Dir, fmt.Sprintf("q%04d_light.smt2", i))
			os.WriteFile(lf, []byte(e.tb.Script(light, o.Goal, true, false)), 0o644)
			lc := cfg
			lc.TimeoutS = 6
			if r := solveOne(lf, lc); r.Status == "unsat" {
				r.Phase = "light"
				o.Result = r
				continue
			}
		}
		tq := time.Now()
		qfh := e.PrepareQF(o)
		if os.Getenv("GOVC_TIMING") != "" && time.Since(tq) > 300*time.Millisecond {
			fmt.Fprintf(os.Stderr, "  prep %.1fs %s (%d hyps)\n", time.Since(tq).Seconds(), o.Name, len(o.Hyps))
		}
		qf := base + ".qf.smt2"
		os.WriteFile(qf, []byte(e.tb.Script(qfh, nil, true, false)), 0o644)
		full := ""
		if !o.Cover {
			full = base + ".full.smt2"
			os.WriteFile(full, []byte(e.tb.Script(o.Hyps, o.Goal, true, false)), 0o644)
		}
		jobs = append(jobs, job{o, qf, full})
	}
	if os.Getenv("GOVC_TIMING") != "" {
		fmt.Fprintf(os.Stderr, "prepare+write %d queries: %.1fs\n", len(jobs), time.Since(tPrep).Seconds())
	}
	ch := make(chan job)
	var wg sync.WaitGroup
	for w := 0; w < cfg.Workers; w++ {
		wg.Add(1)
		go func() {
			defer wg.Done()
			for j := range ch {
				c1 := cfg
				if j.o.Cover && c1.TimeoutS > 4 {
					c1.TimeoutS = 4 // vacuity guards only need to fail to be refuted quickly
				}
				cfgJ := cfg
				cfgJ.IgnoreSat = true
				if cfg.Short != nil && cfg.Short(j.o.Name) && cfg.TimeoutS > 10 {
					c1.TimeoutS, cfgJ.TimeoutS = 10, 10
				}
				if j.o.Cover || j.full == "" {
					r := solveOne(j.qf, c1)
					r.Phase = "qf-inst"
					j.o.Result = r
					continue
				}
				// the instantiated (quantifier-free) query first; if it is still running after a while the full
				// quantified query is started beside it, and the first refutation wins
				type pr struct {
					r     *SolveResult
					phase string
				}
				ch2 := make(chan pr, 2)
				t0 := time.Now()
				jctx, jcancel := context.WithCancel(context.Background())
				go func() { ch2 <- pr{solveOneCtx(jctx, j.qf, c1), "qf-inst"} }()
				var qfRes, fullRes *SolveResult
				fullStarted := false
				startFull := func() {
					if !fullStarted {
						fullStarted = true
						go func() { ch2 <- pr{solveOneCtx(jctx, j.full, cfgJ), "quantified"} }()
					}
				}
				delay := time.After(time.Duration(cfgJ.TimeoutS) * time.Second / 4)
				var r *SolveResult
				for r == nil {
					select {
					case <-delay:
						startFull()
					case p := <-ch2:
						p.r.Phase = p.phase
						if p.phase == "qf-inst" {
							qfRes = p.r
							if qfRes.Status == "unsat" {
								r = qfRes
								break
							}
							startFull()
						} else {
							fullRes = p.r
							if fullRes.Status == "unsat" {
								r = fullRes
								break
							}
						}
						if qfRes != nil && fullRes != nil {
							r = fullRes
							if qfRes.Status == "sat" {
								// counter-model of the weakened (instantiated) problem only: not a verdict
								r.Model = qfRes.Model
								r.Status = "unknown"
								r.Output = "qf-instantiated problem is sat; quantified problem undecided: " + r.Output
							}
						}
					}
				}
				jcancel()
				r.Seconds = time.Since(t0).Seconds()
				j.o.Result = r
			}
		}()
	}
	for _, j := range jobs {
		ch <- j
	}
	close(ch)
	wg.Wait()
}

func solveOne(file string, cfg SolveCfg) *SolveResult {
	return solveOneCtx(context.Background(), file, cfg)
}

func solveOneCtx(parent context.Context, file string, cfg SolveCfg) *SolveResult {
	ctx, cancel := context.WithCancel(parent)
	defer cancel()
	type ans struct {
		solver, status, out string
		secs                float64
	}
	res := make(chan ans, len(solvers))
	start := func(sd solverDef) {
		go func() {
			st, out, secs := runSolver(ctx, sd, file, cfg.TimeoutS)
			res <- ans{sd.Name, st, out, secs}
		}()
	}
	// stage 1: z3 5.1 and cvc5; stage 2 (after a grace period, or when both gave up): z3 4.8 and the bit-blast pipeline
	var stage1, stage2 []solverDef
	for _, sd := range solvers {
		if sd.Name == "z3-new" || sd.Name == "cvc5" {
			stage1 = append(stage1, sd)
		} else {
			stage2 = append(stage2, sd)
		}
	}
	if cfg.All {
		stage1 = append(stage1, stage2...)
		stage2 = nil
	}
	for _, sd := range stage1 {
		start(sd)
	}
	running := len(stage1)
	grace := time.After(time.Duration(cfg.TimeoutS) * time.Second / 5)
	stage2Started := len(stage2) == 0
	final := &SolveResult{Status: "unknown", All: map[string]string{}}
	var crossDone <-chan time.Time
	var best *ans
	t0 := time.Now()
	for running > 0 {
		var a ans
		select {
		case a = <-res:
			running--
		case <-crossDone:
			// cross-check window of the thorough tier is over: the solvers still running are stopped
			cancel()
			running = 0
			continue
		case <-grace:
			if !stage2Started {
				stage2Started = true
				for _, sd := range stage2 {
					start(sd)
					running++
				}
			}
			continue
		}
		if cfg.IgnoreSat && a.status == "sat" {
			if final.Model == "" {
				final.Model = a.out
			}
			a.status = "unknown"
		}
		final.All[a.solver] = a.status
		if a.status == "unsat" || a.status == "sat" {
			if best == nil {
				b := a
				best = &b
				if !cfg.All {
					cancel()
					break
				}
				// thorough tier: the other solvers get a bounded window (three times the winner's time, at least
				// 10 s) to confirm or contradict the verdict
				w := 2 * time.Since(t0)
				if w < 3*time.Second {
					w = 3 * time.Second
				}
				crossDone = time.After(w)
			} else if best.status != a.status {
				final.Status = "error"
				final.Output = fmt.Sprintf("solver disagreement: %s=%s %s=%s", best.solver, best.status, a.solver, a.status)
				final.Seconds = time.Since(t0).Seconds()
				return final
			}
		} else if final.Output == "" && a.status == "error" {
			final.Output = a.solver + ": " + firstLines(a.out, 5)
		}
		if running == 0 && !stage2Started && best == nil {
			stage2Started = true
			for _, sd := range stage2 {
				start(sd)
				running++
			}
		}
	}
	final.Seconds = time.Since(t0).Seconds()
	if best != nil {
		final.Status = best.status
		final.Solver = best.solver
		if best.status == "sat" {
			final.Model = best.out
		}
		return final
	}
	allTO := true
	for _, s := range final.All {
		if s != "timeout" {
			allTO = false
		}
	}
	if allTO {
		final.Status = "timeout"
	}
	return final
}

func firstLines(s string, n int) string {
	ls := strings.Split(s, "\n")
	if len(ls) > n {
		ls = ls[:n]
	}
	return strings.Join(ls, "\n")
}

// umulZeroFacts instantiates, for every ground product term umul(a, s) of the obligation, the schema
// (a == 0 || s == 0) ==> umul(a, s) == 0, which is true of 64-bit multiplication.
func (e *Engine) umulZeroFacts(o *Obligation) []*Term {
	tb := e.tb
	seen := map[*Term]bool{}
	var out []*Term
	zero := tb.BVI(64, 0)
	var walk func(t *Term)
	walk = func(t *Term) {
		if seen[t] {
			return
		}
		seen[t] = true
		if t.Op == "app" && t.Name == "umul" && !t.hasBV && len(t.Args) == 2 && len(out) < 64 {
			out = append(out, tb.Implies(tb.Or(tb.Eq(t.Args[0], zero), tb.Eq(t.Args[1], zero)), tb.Eq(t, zero)))
		}
		for _, a := range t.Args {
			walk(a)
		}
	}
	for _, h := range o.Hyps {
		walk(h)
	}
	if o.Goal != nil {
		walk(o.Goal)
	}
	return out
}

// constMulFacts: for ground products x*c and y*c by the same small constant c (element strides), the true facts
// 0 <= x < y < 2^40 ==> x*c + c <= y*c < 2^60 (no wrap-around below 2^40 elements), so that the solver need not rediscover
// the monotonicity of a constant multiplier by bit-blasting.
func (e *Engine) constMulFacts(o *Obligation) []*Term {
	tb := e.tb
	seen := map[*Term]bool{}
	groups := map[string][]*Term{}
	consts := map[string]*Term{}
	var order []string
	var walk func(t *Term)
	walk = func(t *Term) {
		if seen[t] {
			return
		}
		seen[t] = true
		if t.Op == "bvmul" && !t.hasBV && t.Sort == BV64 {
			for i := 0; i < 2; i++ {
				c, x := t.Args[i], t.Args[1-i]
				if c.IsConst() && !x.IsConst() && c.Val.BitLen() <= 16 && c.Val.Sign() > 0 && c.Val.Int64() != 1 {
					k := c.Val.String()
					dup := false
					for _, y := range groups[k] {
						if y == x {
							dup = true
						}
					}
					if !dup && len(groups[k]) < 7 {
						if len(groups[k]) == 0 {
							order = append(order, k)
						}
						groups[k] = append(groups[k], x)
						consts[k] = c
					}
				}
			}
		}
		for _, a := range t.Args {
			walk(a)
		}
	}
	for _, h := range o.Hyps {
		walk(h)
	}
	if o.Goal != nil {
		walk(o.Goal)
	}
	var out []*Term
	zero := tb.BVI(64, 0)
	lim := tb.BVU(64, 1<<40)
	for _, k := range order {
		c := consts[k]
		xs := groups[k]
		for _, x := range xs {
			out = append(out, tb.Implies(tb.And(tb.SLe(zero, x), tb.SLt(x, lim)), tb.ULt(tb.Mul(x, c), tb.BVU(64, 1<<60))))
		}
		for i := 0; i < len(xs); i++ {
			for j := 0; j < len(xs); j++ {
				if i == j {
					continue
				}
				x, y := xs[i], xs[j]
				out = append(out, tb.Implies(tb.And(tb.SLe(zero, x), tb.SLt(x, y), tb.SLt(y, lim)), tb.ULe(tb.Add(tb.Mul(x, c), c), tb.Mul(y, c))))
			}
		}
	}
	return out
}
