package main

// Memory model: typed heap (per-field arrays), raw byte memory, byte objects.

import (
	"fmt"
	"go/types"
	"strconv"

	"golang.org/x/tools/go/ssa"
)

var mathFloat32bits func(float32) uint32
var mathFloat64bits func(float64) uint64

func (r *FnRun) zeroArr() *Term { return r.tb().App("constarr", ByteAr, r.tb().BVI(8, 0)) }

// ---- raw memory ----

func (r *FnRun) rawLoadBV(M *Term, addr *Term, nbytes int) *Term {
	tb := r.tb()
	var t *Term
	for i := 0; i < nbytes; i++ {
		b := tb.Select(M, tb.Add(addr, tb.BVI(64, int64(i))))
		if t == nil {
			t = b
		} else {
			t = tb.Concat(b, t)
		}
	}
	return t
}

func (r *FnRun) rawStoreBV(st *State, addr *Term, v *Term) {
	tb := r.tb()
	n := v.Sort.W / 8
	for i := 0; i < n; i++ {
		st.M = tb.Store(st.M, tb.Add(addr, tb.BVI(64, int64(i))), tb.Extract(8*i+7, 8*i, v))
	}
	if n == 8 {
		st.SB = tb.Store(st.SB, addr, tb.BVI(64, 0))
		st.SO = tb.Store(st.SO, addr, v)
	}
}

func (r *FnRun) sliceDataWord(s SliceV) *Term {
	tb := r.tb()
	if s.Raw {
		return s.Off
	}
	// nil slice (base 0) has Data == 0; otherwise address of object + offset
	return tb.Ite(tb.Eq(s.Base, tb.BVI(64, 0)), tb.BVI(64, 0), tb.Add(tb.App("addrof", BV64, s.Base), s.Off))
}

func (r *FnRun) rawLoad(st *State, p PtrV, t types.Type) Val {
	tb := r.tb()
	a := p.Addr
	switch u := t.Underlying().(type) {
	case *types.Basic:
		if isBool(t) {
			return Scalar{tb.Ne(tb.Select(st.M, a), tb.BVI(8, 0))}
		}
		if isString(t) {
			return r.rawLoadSlice(st, p, false)
		}
		if w, _, ok := basicInfo(t); ok {
			return Scalar{r.rawLoadBV(st.M, a, w/8)}
		}
	case *types.Pointer, *types.Map, *types.Chan, *types.Signature:
		return Scalar{r.rawLoadBV(st.M, a, 8)}
	case *types.Slice:
		if isByteSlice(t) {
			return r.rawLoadSlice(st, p, true)
		}
		return PSlice{Ptr: r.rawLoadBV(st.M, a, 8), Len: r.rawLoadBV(st.M, tb.Add(a, tb.BVI(64, 8)), 8), Cap: r.rawLoadBV(st.M, tb.Add(a, tb.BVI(64, 16)), 8), Elem: u.Elem()}
	case *types.Interface:
		return IfaceV{Tag: r.rawLoadBV(st.M, a, 8), Data: r.rawLoadBV(st.M, tb.Add(a, tb.BVI(64, 8)), 8)}
	case *types.Struct:
		offs := r.e.sizes.Offsetsof(structFields(u))
		sv := StructV{T: t}
		for i := 0; i < u.NumFields(); i++ {
			q := p
			q.Addr = tb.Add(a, tb.BVI(64, offs[i]))
			sv.Fields = append(sv.Fields, r.rawLoad(st, q, u.Field(i).Type()))
		}
		return sv
	case *types.Array:
		if n, ok := isByteArray(t); ok {
			return ArrV{Arr: tb.CopyRange(r.zeroArr(), tb.BVI(64, 0), st.M, a, tb.BVI(64, n)), N: n}
		}
	}
	panic(unsupported("raw load of type " + t.String()))
}

func (r *FnRun) rawLoadSlice(st *State, p PtrV, hasCap bool) Val {
	tb := r.tb()
	a := p.Addr
	ln := r.rawLoadBV(st.M, tb.Add(a, tb.BVI(64, 8)), 8)
	var cp *Term
	if hasCap {
		cp = r.rawLoadBV(st.M, tb.Add(a, tb.BVI(64, 16)), 8)
	}
	handBuilt := false
	if p.Alloc != nil {
		et := p.Alloc.Type().(*types.Pointer).Elem()
		if !isByteSlice(et) && !isString(et) {
			handBuilt = true
		}
	}
	if handBuilt {
		return SliceV{Base: tb.BVI(64, 0), Off: r.rawLoadBV(st.M, a, 8), Len: ln, Cap: cp, Raw: true}
	}
	return SliceV{Base: tb.Select(st.SB, a), Off: tb.Select(st.SO, a), Len: ln, Cap: cp}
}

func (r *FnRun) rawStore(st *State, p PtrV, t types.Type, v Val) {
	tb := r.tb()
	a := p.Addr
	switch u := t.Underlying().(type) {
	case *types.Basic:
		if isBool(t) {
			st.M = tb.Store(st.M, a, tb.Ite(r.scalar(v), tb.BVI(8, 1), tb.BVI(8, 0)))
			return
		}
		if isString(t) {
			r.rawStoreSlice(st, a, v.(SliceV))
			return
		}
		if _, _, ok := basicInfo(t); ok {
			r.rawStoreBV(st, a, r.scalar(v))
			return
		}
	case *types.Pointer, *types.Map, *types.Chan, *types.Signature:
		r.rawStoreBV(st, a, r.scalar(v))
		return
	case *types.Slice:
		if isByteSlice(t) {
			r.rawStoreSlice(st, a, v.(SliceV))
			return
		}
		ps := v.(PSlice)
		r.rawStoreBV(st, a, ps.Ptr)
		r.rawStoreBV(st, tb.Add(a, tb.BVI(64, 8)), ps.Len)
		r.rawStoreBV(st, tb.Add(a, tb.BVI(64, 16)), ps.Cap)
		return
	case *types.Interface:
		iv := v.(IfaceV)
		r.rawStoreBV(st, a, iv.Tag)
		r.rawStoreBV(st, tb.Add(a, tb.BVI(64, 8)), iv.Data)
		return
	case *types.Struct:
		offs := r.e.sizes.Offsetsof(structFields(u))
		sv := v.(StructV)
		for i := 0; i < u.NumFields(); i++ {
			q := p
			q.Addr = tb.Add(a, tb.BVI(64, offs[i]))
			r.rawStore(st, q, u.Field(i).Type(), sv.Fields[i])
		}
		return
	case *types.Array:
		if n, ok := isByteArray(t); ok {
			st.M = tb.CopyRange(st.M, a, v.(ArrV).Arr, tb.BVI(64, 0), tb.BVI(64, n))
			return
		}
	}
	panic(unsupported("raw store of type " + t.String()))
}

func (r *FnRun) rawStoreSlice(st *State, a *Term, s SliceV) {
	tb := r.tb()
	r.rawStoreBV(st, a, r.sliceDataWord(s))
	r.rawStoreBV(st, tb.Add(a, tb.BVI(64, 8)), s.Len)
	if s.Cap != nil {
		r.rawStoreBV(st, tb.Add(a, tb.BVI(64, 16)), s.Cap)
	}
	if s.Raw {
		st.SB = tb.Store(st.SB, a, tb.BVI(64, 0))
		st.SO = tb.Store(st.SO, a, s.Off)
	} else {
		st.SB = tb.Store(st.SB, a, s.Base)
		st.SO = tb.Store(st.SO, a, s.Off)
	}
}

// ---- typed heap ----

func structKey(t types.Type) string { return typeKey(t) }

func (r *FnRun) heapLoadLeafs(st *State, key string, addr *Term, t types.Type) Val {
	tb := r.tb()
	e := r.e
	sel := func(suffix string, s *Sort) *Term {
		return tb.Select(e.heapArr(st, key+suffix, s), addr)
	}
	switch u := t.Underlying().(type) {
	case *types.Basic:
		if isBool(t) {
			return Scalar{sel("", BoolSort)}
		}
		if isString(t) {
			v := SliceV{Base: sel(".base", BV64), Off: sel(".off", BV64), Len: sel(".len", BV64)}
			r.loadedSliceInvariant(st, v)
			return v
		}
		if w, _, ok := basicInfo(t); ok {
			return Scalar{sel("", BV(w))}
		}
	case *types.Pointer, *types.Map, *types.Chan, *types.Signature:
		return Scalar{sel("", BV64)}
	case *types.Slice:
		if isByteSlice(t) {
			v := SliceV{Base: sel(".base", BV64), Off: sel(".off", BV64), Len: sel(".len", BV64), Cap: sel(".cap", BV64)}
			r.loadedSliceInvariant(st, v)
			return v
		}
		v := PSlice{Ptr: sel(".ptr", BV64), Len: sel(".len", BV64), Cap: sel(".cap", BV64), Elem: u.Elem()}
		r.typeInvariant(v, t)
		return v
	case *types.Interface:
		return IfaceV{Tag: sel(".tag", BV64), Data: sel(".data", BV64)}
	case *types.Array:
		if n, ok := isByteArray(t); ok {
			base := tb.App("fobj:"+key, BV64, addr)
			return ArrV{Arr: tb.Select(st.BH, base), N: n}
		}
	}
	panic(unsupported("typed heap load of " + t.String() + " at " + key))
}

func (r *FnRun) heapStoreLeafs(st *State, key string, addr *Term, t types.Type, v Val) {
	tb := r.tb()
	e := r.e
	sto := func(suffix string, x *Term) {
		k := key + suffix
		st.Heap[k] = tb.Store(e.heapArr(st, k, x.Sort), addr, x)
	}
	switch t.Underlying().(type) {
	case *types.Basic:
		if isString(t) {
			s := v.(SliceV)
			if s.Raw {
				panic(unsupported("raw-view string stored to typed heap"))
			}
			sto(".base", s.Base)
			sto(".off", s.Off)
			sto(".len", s.Len)
			return
		}
		sto("", r.scalar(v))
		return
	case *types.Pointer, *types.Map, *types.Chan, *types.Signature:
		sto("", r.scalar(v))
		return
	case *types.Slice:
		if isByteSlice(t) {
			s := v.(SliceV)
			if s.Raw {
				panic(unsupported("raw-view slice stored to typed heap"))
			}
			sto(".base", s.Base)
			sto(".off", s.Off)
			sto(".len", s.Len)
			sto(".cap", s.Cap)
			return
		}
		ps := v.(PSlice)
		sto(".ptr", ps.Ptr)
		sto(".len", ps.Len)
		sto(".cap", ps.Cap)
		return
	case *types.Interface:
		iv := v.(IfaceV)
		sto(".tag", iv.Tag)
		sto(".data", iv.Data)
		return
	case *types.Array:
		if _, ok := isByteArray(t); ok {
			base := tb.App("fobj:"+key, BV64, addr)
			st.BH = tb.Store(st.BH, base, v.(ArrV).Arr)
			return
		}
	}
	panic(unsupported("typed heap store of " + t.String()))
}

func fieldKey(st types.Type, idx int) string {
	u := st.Underlying().(*types.Struct)
	return structKey(st) + "#" + u.Field(idx).Name()
}

// objLoad loads a value of type t from typed heap object at addr.
func (r *FnRun) objLoad(st *State, addr *Term, t types.Type) Val {
	tb := r.tb()
	if u, ok := t.Underlying().(*types.Struct); ok {
		offs := r.e.sizes.Offsetsof(structFields(u))
		sv := StructV{T: t}
		for i := 0; i < u.NumFields(); i++ {
			ft := u.Field(i).Type()
			if _, isS := ft.Underlying().(*types.Struct); isS {
				sv.Fields = append(sv.Fields, r.objLoad(st, tb.Add(addr, tb.BVI(64, offs[i])), ft))
			} else {
				sv.Fields = append(sv.Fields, r.heapLoadLeafs(st, fieldKey(t, i), addr, ft))
			}
		}
		return sv
	}
	if at, ok := t.Underlying().(*types.Array); ok {
		if _, isBA := isByteArray(t); !isBA && at.Len() <= 16 {
			sz := r.e.sizeof(at.Elem())
			sv := StructV{T: t}
			for i := int64(0); i < at.Len(); i++ {
				sv.Fields = append(sv.Fields, r.objLoad(st, tb.Add(addr, tb.BVI(64, i*sz)), at.Elem()))
			}
			return sv
		}
	}
	return r.heapLoadLeafs(st, "cell:"+typeKey(t), addr, t)
}

func (r *FnRun) objStore(st *State, addr *Term, t types.Type, v Val) {
	tb := r.tb()
	if u, ok := t.Underlying().(*types.Struct); ok {
		offs := r.e.sizes.Offsetsof(structFields(u))
		sv, ok := v.(StructV)
		if !ok {
			panic(unsupported(fmt.Sprintf("store of %T as struct", v)))
		}
		for i := 0; i < u.NumFields(); i++ {
			ft := u.Field(i).Type()
			if _, isS := ft.Underlying().(*types.Struct); isS {
				r.objStore(st, tb.Add(addr, tb.BVI(64, offs[i])), ft, sv.Fields[i])
			} else {
				r.heapStoreLeafs(st, fieldKey(t, i), addr, ft, sv.Fields[i])
			}
		}
		return
	}
	if at, ok := t.Underlying().(*types.Array); ok {
		if _, isBA := isByteArray(t); !isBA && at.Len() <= 16 {
			sz := r.e.sizeof(at.Elem())
			sv := v.(StructV)
			for i := int64(0); i < at.Len(); i++ {
				r.objStore(st, tb.Add(addr, tb.BVI(64, i*sz)), at.Elem(), sv.Fields[i])
			}
			return
		}
	}
	r.heapStoreLeafs(st, "cell:"+typeKey(t), addr, t, v)
}

// ---- generic load/store through a pointer value ----

func (r *FnRun) load(st *State, p PtrV, t types.Type) Val {
	tb := r.tb()
	switch p.Kind {
	case PRaw:
		return r.rawLoad(st, p, t)
	case PObj:
		return r.objLoad(st, p.Addr, t)
	case PField:
		return r.heapLoadLeafs(st, p.STN+"#"+p.ST.Field(p.Idx).Name(), p.Addr, t)
	case PLocal:
		v, ok := st.Locals[p.Alloc]
		if !ok {
			panic(unsupported("local read before init: " + p.Alloc.Name()))
		}
		for _, i := range p.Path {
			switch x := v.(type) {
			case StructV:
				v = x.Fields[i]
			default:
				panic(unsupported(fmt.Sprintf("local path into %T", v)))
			}
		}
		return v
	case PByteEl:
		return Scalar{tb.Select(tb.Select(st.BH, p.Base), p.Off)}
	case PByteObj:
		return ArrV{Arr: tb.Select(st.BH, p.Base), N: p.N}
	case PGlobal:
		return r.e.globalVal(p.Glob, p.Path, t)
	}
	panic("load: bad pointer kind")
}

func (r *FnRun) store(st *State, p PtrV, t types.Type, v Val) {
	tb := r.tb()
	switch p.Kind {
	case PRaw:
		r.rawStore(st, p, t, v)
	case PObj:
		r.objStore(st, p.Addr, t, v)
	case PField:
		r.heapStoreLeafs(st, p.STN+"#"+p.ST.Field(p.Idx).Name(), p.Addr, t, v)
	case PLocal:
		st.Locals[p.Alloc] = setPath(st.Locals[p.Alloc], p.Path, v)
	case PByteEl:
		obj := tb.Select(st.BH, p.Base)
		st.BH = tb.Store(st.BH, p.Base, tb.Store(obj, p.Off, r.scalar(v)))
	case PByteObj:
		st.BH = tb.Store(st.BH, p.Base, v.(ArrV).Arr)
	case PGlobal:
		panic(unsupported("store to global " + p.Glob.String()))
	default:
		panic("store: bad pointer kind")
	}
}

func setPath(cur Val, path []int, v Val) Val {
	if len(path) == 0 {
		return v
	}
	sv, ok := cur.(StructV)
	if !ok {
		panic(unsupported(fmt.Sprintf("setPath into %T", cur)))
	}
	n := StructV{T: sv.T, Fields: append([]Val{}, sv.Fields...)}
	n.Fields[path[0]] = setPath(sv.Fields[path[0]], path[1:], v)
	return n
}

// globalVal: package-level variables are treated as immutable after init; their value is a stable symbolic constant.
func (e *Engine) globalVal(g *ssa.Global, path []int, t types.Type) Val {
	key := "glob:" + g.String()
	for _, i := range path {
		key += fmt.Sprintf(".%d", i)
	}
	return e.stableVal(t, key)
}

// stableVal: like freshVal but with deterministic names (same term every time).
func (e *Engine) stableVal(t types.Type, prefix string) Val {
	tb := e.tb
	switch u := t.Underlying().(type) {
	case *types.Basic:
		if isBool(t) {
			return Scalar{tb.Var(prefix, BoolSort)}
		}
		if isString(t) {
			return SliceV{Base: tb.Var(prefix+".base", BV64), Off: tb.Var(prefix+".off", BV64), Len: tb.Var(prefix+".len", BV64)}
		}
		if w, _, ok := basicInfo(t); ok {
			return Scalar{tb.Var(prefix, BV(w))}
		}
	case *types.Pointer, *types.Map, *types.Chan, *types.Signature:
		return Scalar{tb.Var(prefix, BV64)}
	case *types.Slice:
		if isByteSlice(t) {
			return SliceV{Base: tb.Var(prefix+".base", BV64), Off: tb.Var(prefix+".off", BV64), Len: tb.Var(prefix+".len", BV64), Cap: tb.Var(prefix+".cap", BV64)}
		}
		return PSlice{Ptr: tb.Var(prefix+".ptr", BV64), Len: tb.Var(prefix+".len", BV64), Cap: tb.Var(prefix+".cap", BV64), Elem: u.Elem()}
	case *types.Struct:
		sv := StructV{T: t}
		for i := 0; i < u.NumFields(); i++ {
			sv.Fields = append(sv.Fields, e.stableVal(u.Field(i).Type(), prefix+"."+u.Field(i).Name()))
		}
		return sv
	case *types.Interface:
		return IfaceV{Tag: tb.Var(prefix+".tag", BV64), Data: tb.Var(prefix+".data", BV64)}
	case *types.Array:
		if n, ok := isByteArray(t); ok {
			return ArrV{Arr: tb.Var(prefix+".arr", ByteAr), N: n}
		}
	}
	panic(unsupported("global of type " + t.String()))
}

// byteAt reads byte k of a byte slice / string value in state st.
func (r *FnRun) byteAt(st *State, s SliceV, k *Term) *Term {
	tb := r.tb()
	if s.Arr != nil {
		return tb.Select(s.Arr, tb.Add(s.Off, k))
	}
	if s.Raw {
		return tb.Select(st.M, tb.Add(s.Off, k))
	}
	return tb.Select(tb.Select(st.BH, s.Base), tb.Add(s.Off, k))
}

func (r *FnRun) sliceContent(st *State, s SliceV) *Term {
	if s.Arr != nil {
		return s.Arr
	}
	if s.Raw {
		return st.M
	}
	return r.tb().Select(st.BH, s.Base)
}

// loadedSliceInvariant: Go-level invariants of any slice/string value found in the typed heap
// (0 <= len <= cap, the backing object is allocated). Memoised per term.
func (r *FnRun) loadedSliceInvariant(st *State, v SliceV) {
	tb := r.tb()
	if v.Len.hasBV || v.Base.hasBV || v.Off.hasBV || (v.Cap != nil && v.Cap.hasBV) {
		return // loaded under a quantifier of a contract: a fact about the bound variable cannot be stated outside it
	}
	key := "sliceinv:" + strconv.Itoa(v.Len.id) + ":" + strconv.Itoa(v.Base.id) + ":" + strconv.Itoa(st.BA.id)
	if r.root.counters[key] > 0 {
		return
	}
	r.root.counters[key] = 1
	zero := tb.BVI(64, 0)
	lim := tb.BVU(64, 1<<48)
	r.addFact(tb.And(tb.SLe(zero, v.Len), tb.SLt(v.Len, lim), tb.SLe(zero, v.Off), tb.SLt(v.Off, lim)))
	if v.Cap != nil {
		r.addFact(tb.And(tb.SLe(v.Len, v.Cap), tb.SLt(v.Cap, lim)))
		r.addFact(tb.Implies(tb.Eq(v.Base, zero), tb.Eq(v.Cap, zero)))
		r.addFact(tb.Not(tb.App("rodata", BoolSort, v.Base))) // a []byte never points into read-only string data
	} else {
		r.addFact(tb.Implies(tb.Eq(v.Base, zero), tb.Eq(v.Len, zero)))
	}
	r.addFact(tb.Or(tb.Eq(v.Base, zero), tb.Select(st.BA, v.Base)))
}
