package main

import (
	"flag"
	"fmt"
	"os"
	"sort"
	"strings"
	"time"
)

func main() {
	if len(os.Args) < 2 {
		fmt.Fprintln(os.Stderr, "usage: govc dump|verify|check ...")
		os.Exit(2)
	}
	switch os.Args[1] {
	case "dump":
		cmdDump(os.Args[2:])
	case "verify":
		cmdVerify(os.Args[2:])
	case "check":
		os.Exit(cmdCheck(os.Args[2:]))
	default:
		fmt.Fprintln(os.Stderr, "unknown command")
		os.Exit(2)
	}
}

func cmdDump(args []string) {
	e, err := NewEngine("/repo", "/verif/spec")
	if err != nil {
		fmt.Fprintln(os.Stderr, err)
		os.Exit(2)
	}
	var names []string
	for n := range e.funcs {
		names = append(names, n)
	}
	sort.Strings(names)
	for _, n := range names {
		for _, a := range args {
			if strings.Contains(n, a) {
				e.funcs[n].WriteTo(os.Stdout)
				fmt.Println()
			}
		}
	}
}

func cmdVerify(args []string) {
	fs := flag.NewFlagSet("verify", flag.ExitOnError)
	pkg := fs.String("pkg", "github.com/philpearl/avro", "package path")
	panics := fs.Bool("panics", false, "generate panic obligations")
	timeout := fs.Int("timeout", 10, "solver timeout (s)")
	verbose := fs.Bool("v", false, "verbose")
	repo := fs.String("repo", "/repo", "repository")
	keep := fs.String("keep", "/tmp/govc-q", "query dir")
	fs.Parse(args)
	t0 := time.Now()
	e, err := NewEngine(*repo, "/verif/spec")
	if err != nil {
		fmt.Fprintln(os.Stderr, err)
		os.Exit(2)
	}
	fmt.Printf("loaded in %.1fs\n", time.Since(t0).Seconds())
	for _, key := range fs.Args() {
		p := *pkg
		if strings.Contains(key, "/") || (strings.Contains(key, ".") && !strings.HasPrefix(key, "(")) {
			p = ""
		}
		fn := e.lookupFunc(p, key)
		if fn == nil {
			fmt.Printf("function %q not found\n", key)
			continue
		}
		c := e.contractFor(fn)
		res := e.VerifyFunction(fn, c, *panics, nil)
		e.Solve(res.Obls, SolveCfg{TimeoutS: *timeout, Dir: *keep, Workers: 8})
		printResult(e, res, *verbose)
	}
}

func printResult(e *Engine, res *FnResult, verbose bool) {
	fmt.Printf("== %s: %d obligations", res.Func, len(res.Obls))
	if res.Unsup != "" {
		fmt.Printf("  UNSUPPORTED: %s", res.Unsup)
	}
	if res.Err != "" {
		fmt.Printf("  ERROR: %s", res.Err)
	}
	fmt.Println()
	for _, o := range res.Obls {
		st := "?"
		if o.Result != nil {
			st = o.Result.Status
		}
		ok := st == "unsat"
		if o.Cover {
			ok = st == "sat" || st == "unknown" || st == "timeout"
		}
		mark := "ok  "
		if !ok {
			mark = "FAIL"
		}
		if verbose || !ok {
			sv, secs := "", 0.0
			if o.Result != nil {
				sv, secs = o.Result.Solver, o.Result.Seconds
			}
			fmt.Printf("  %s %-60s %-8s %-8s %.2fs  %s\n", mark, o.Name, st, sv, secs, o.Text)
			if !ok && o.Result != nil && o.Result.Output != "" {
				fmt.Printf("       %s\n", o.Result.Output)
			}
		}
	}
	for _, n := range res.Notes {
		fmt.Printf("  note: %s\n", n)
	}
}
