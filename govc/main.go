package main

import (
	"flag"
	"fmt"
	"os"
	"os/exec"
	"runtime/debug"
	"runtime/pprof"
	"sort"
	"strings"
	"time"
)

func main() {
	if len(os.Args) < 2 {
		fmt.Fprintln(os.Stderr, "usage: govc dump|verify|check ...")
		os.Exit(2)
	}
	// term construction allocates heavily and nothing is freed before exit: trade memory for collector time
	debug.SetGCPercent(800)
	debug.SetMemoryLimit(40 << 30)
	if pf := os.Getenv("GOVC_PROF"); pf != "" {
		f, _ := os.Create(pf)
		pprof.StartCPUProfile(f)
		defer pprof.StopCPUProfile()
	}
	switch os.Args[1] {
	case "locals":
		// govc locals : (re)writes spec/locals.json from the current source (run after contracts are updated)
		e, err := NewEngine("/repo", "/verif/spec")
		if err != nil {
			fmt.Fprintln(os.Stderr, err)
			os.Exit(2)
		}
		if err := e.writeLocals("/verif/spec"); err != nil {
			fmt.Fprintln(os.Stderr, err)
			os.Exit(2)
		}
	case "dump":
		cmdDump(os.Args[2:])
	case "verify":
		cmdVerify(os.Args[2:])
	case "check":
		rc := cmdCheck(os.Args[2:])
		pprof.StopCPUProfile()
		os.Exit(rc)
	default:
		fmt.Fprintln(os.Stderr, "unknown command")
		os.Exit(2)
	}
}

func cmdDump(args []string) {
	e, err := NewEngine("/repo", "/verif/spec")
	if err != nil {
		fmt.Fprintln(os.Stderr, err)
		os.Exit(2)
	}
	var names []string
	for n := range e.funcs {
		names = append(names, n)
	}
	sort.Strings(names)
	for _, n := range names {
		for _, a := range args {
			if strings.Contains(n, a) {
				e.funcs[n].WriteTo(os.Stdout)
				fmt.Println()
			}
		}
	}
	for _, a := range args {
		if strings.HasPrefix(a, "=") {
			if fn := e.lookupFunc("github.com/philpearl/avro", a[1:]); fn != nil {
				fn.WriteTo(os.Stdout)
			}
		}
	}
}

func cmdVerify(args []string) {
	fs := flag.NewFlagSet("verify", flag.ExitOnError)
	pkg := fs.String("pkg", "github.com/philpearl/avro", "package path")
	panics := fs.Bool("panics", false, "generate panic obligations")
	timeout := fs.Int("timeout", 10, "solver timeout (s)")
	verbose := fs.Bool("v", false, "verbose")
	repo := fs.String("repo", "/repo", "repository")
	keep := fs.String("keep", "/tmp/govc-q", "query dir")
	model := fs.Bool("model", false, "print values of SSA registers for sat obligations")
	modelAll := fs.Bool("modelall", false, "with -model: also for undecided obligations (candidate model of the instantiated problem)")
	onlyObl := fs.String("obl", "", "only solve obligations whose name contains this")
	as := fs.String("as", "", "verify against interface contract (e.g. github.com/philpearl/avro.Codec.Read)")
	view := fs.String("view", "", "verify against the named implementation view of the function")
	fs.Parse(args)
	t0 := time.Now()
	specDir := "/verif/spec"
	if sd := os.Getenv("GOVC_SPEC"); sd != "" {
		specDir = sd // development only: an alternative specification directory
	}
	e, err := NewEngine(*repo, specDir)
	if err != nil {
		fmt.Fprintln(os.Stderr, err)
		os.Exit(2)
	}
	fmt.Printf("loaded in %.1fs\n", time.Since(t0).Seconds())
	for _, key := range fs.Args() {
		p := *pkg
		if strings.Contains(key, "/") || (strings.Contains(key, ".") && !strings.HasPrefix(key, "(")) {
			p = ""
		}
		fn := e.lookupFunc(p, key)
		if fn == nil {
			fmt.Printf("function %q not found\n", key)
			continue
		}
		c := e.contractFor(fn)
		asKey := *as
		if *view != "" {
			c = nil
			for _, v := range e.specs.Views {
				if v.ViewName == *view && e.lookupFunc(v.Pkg, v.Key) == fn {
					c = v
				}
			}
			if c == nil {
				fmt.Printf("no view %s of %s\n", *view, key)
				continue
			}
			asKey = "view:" + *view
		}
		res := e.VerifyFunctionAs(fn, c, *panics, nil, asKey)
		if *onlyObl != "" {
			var keepO []*Obligation
			for _, o := range res.Obls {
				if strings.Contains(o.Name, *onlyObl) {
					keepO = append(keepO, o)
				}
			}
			res.Obls = keepO
		}
		if *onlyObl != "" {
			for _, o := range res.Obls {
				fmt.Printf("  goal %s: %s\n", o.Name, e.tb.Show(o.Goal))
			}
		}
		e.Solve(res.Obls, SolveCfg{TimeoutS: *timeout, Dir: *keep, Workers: 8})
		printResult(e, res, *verbose)
		if *model {
			for _, o := range res.Obls {
				if o.Result != nil && !o.Cover && (o.Result.Status == "sat" || o.Result.Model != "" || (*modelAll && o.Result.Status != "unsat")) {
					fmt.Printf("  --- values for %s\n", o.Name)
					printValues(e, o)
				}
			}
		}
	}
}

func printValues(e *Engine, o *Obligation) {
	var terms []*Term
	var names []string
	seen := map[*Term]bool{}
	add := func(ls []leaf) {
		for _, l := range ls {
			if l.T == nil || seen[l.T] || l.T.hasBV || l.T.Sort.Kind == SArr {
				continue
			}
			seen[l.T] = true
			terms = append(terms, l.T)
			names = append(names, l.Name)
		}
	}
	add(o.Inputs)
	if o.root != nil {
		add(o.root.watch)
	}
	hyps := e.PrepareQF(o)
	script := e.tb.Script(hyps, nil, true, false, terms...)
	// drop the (quantified) copyrange axiom: we want a candidate model of the instantiated problem
	var keepL []string
	for _, l := range strings.Split(script, "\n") {
		if strings.HasPrefix(l, "(assert (forall ((d (Array") {
			continue
		}
		keepL = append(keepL, l)
	}
	script = strings.Join(keepL, "\n")
	f := "/tmp/govc-values.smt2"
	os.WriteFile(f, []byte(script), 0o644)
	out, _ := exec.Command("z3-new", "-smt2", "-T:20", f).CombinedOutput()
	lines := strings.Split(string(out), "\n")
	fmt.Printf("    %s\n", lines[0])
	i := 0
	for _, l := range lines[1:] {
		l = strings.TrimSpace(l)
		if l == "" {
			continue
		}
		if i < len(names) {
			// value is the last token
			fs := strings.Fields(strings.TrimRight(l, ")"))
			if len(fs) > 0 {
				fmt.Printf("    %-28s %s\n", names[i], fs[len(fs)-1])
			}
			i++
		}
	}
}

func printResult(e *Engine, res *FnResult, verbose bool) {
	fmt.Printf("== %s: %d obligations", res.Func, len(res.Obls))
	if res.Unsup != "" {
		fmt.Printf("  UNSUPPORTED: %s", res.Unsup)
	}
	if res.Err != "" {
		fmt.Printf("  ERROR: %s", res.Err)
	}
	fmt.Println()
	for _, o := range res.Obls {
		st := "?"
		if o.Result != nil {
			st = o.Result.Status
		}
		ok := st == "unsat"
		if o.Cover {
			ok = st == "sat" || st == "unknown" || st == "timeout"
		}
		mark := "ok  "
		if !ok {
			mark = "FAIL"
		}
		if verbose || !ok {
			sv, secs := "", 0.0
			if o.Result != nil {
				sv, secs = o.Result.Solver, o.Result.Seconds
			}
			fmt.Printf("  %s %-60s %-8s %-8s %.2fs  %s\n", mark, o.Name, st, sv, secs, o.Text)
			if !ok && o.Result != nil && o.Result.Output != "" {
				fmt.Printf("       %s\n", o.Result.Output)
			}
		}
	}
	for _, n := range res.Notes {
		fmt.Printf("  note: %s\n", n)
	}
}
