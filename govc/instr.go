package main

// SSA instruction semantics.

import (
	"fmt"
	"go/token"
	"go/types"
	"os"

	"golang.org/x/tools/go/ssa"
)

// ptr interprets an SSA pointer-typed value as a pointer descriptor.
func (r *FnRun) ptr(v ssa.Value) PtrV {
	x := r.val(v)
	return r.asPtr(x, v.Type())
}

func (r *FnRun) asPtr(x Val, t types.Type) PtrV {
	switch p := x.(type) {
	case PtrV:
		return p
	case Scalar:
		pt, ok := t.Underlying().(*types.Pointer)
		if !ok {
			panic(unsupported("pointer use of non-pointer type " + t.String()))
		}
		el := pt.Elem()
		if n, ok := isByteArray(el); ok {
			// pointer to [N]byte held as number: treat as byte object identified by its address
			return PtrV{Kind: PByteObj, Base: r.tb().App("objat", BV64, p.T), N: n, T: el}
		}
		return PtrV{Kind: PObj, Addr: p.T, T: el}
	}
	panic(unsupported(fmt.Sprintf("pointer value of kind %T", x)))
}

func (r *FnRun) constString(s string) SliceV {
	tb := r.tb()
	sv := r.e.constString(s)
	if s == "" {
		return sv
	}
	key := "strfact:" + s
	if r.root.counters[key] == 0 {
		r.root.counters[key] = 1
		content := r.e.strConstContent(s)
		r.addFact(tb.Eq(tb.Select(r.rootEntry().BH, sv.Base), content))
		r.addFact(tb.Select(r.rootEntry().BA, sv.Base))
		r.addFact(tb.Ne(sv.Base, tb.BVI(64, 0)))
		r.addFact(tb.App("rodata", BoolSort, sv.Base)) // string constants live in read-only memory
		r.addFact(tb.Not(tb.App("cowned", BoolSort, sv.Base)))
		for i := 0; i < len(s) && i < 128; i++ {
			r.addFact(tb.Eq(tb.Select(content, tb.BVI(64, int64(i))), tb.BVI(8, int64(s[i]))))
		}
	}
	return sv
}

func (r *FnRun) rootEntry() *State { return r.root.entry }

func (r *FnRun) nilCheck(st *State, p PtrV, pos token.Pos, what string) {
	if !r.root.panics {
		return
	}
	tb := r.tb()
	switch p.Kind {
	case PObj, PRaw, PField:
		if p.Addr.Op == "var" && r.isFreshAddr(p.Addr) {
			return
		}
		r.oblige(st, "panic", "nilderef", tb.Ne(p.Addr, tb.BVI(64, 0)), pos, what, []string{"C06"})
	}
}

func (r *FnRun) isFreshAddr(t *Term) bool {
	return len(t.Name) > 3 && (t.Name[:3] == "ra!" || t.Name[:3] == "ha!")
}

func (r *FnRun) execInstr(st *State, ins ssa.Instruction, in map[*ssa.BasicBlock][]edge) *State {
	tb := r.tb()
	e := r.e
	if v, ok := ins.(ssa.Value); ok && r.depth == 0 {
		defer func() {
			if x, ok := r.vals[v]; ok {
				var ls []leaf
				func() {
					defer func() { recover() }()
					leaves(x, v.Name(), &ls)
				}()
				r.root.watch = append(r.root.watch, ls...)
			}
		}()
	}
	switch x := ins.(type) {
	case *ssa.DebugRef:
		if id, ok := x.Expr.(interface{ String() string }); ok && !x.IsAddr {
			_ = id
		}
		if x.Object() != nil && !x.IsAddr {
			r.names[x.Object().Name()] = x.X
		} else if x.Object() != nil && x.IsAddr {
			r.names["&"+x.Object().Name()] = x.X
		}
		return st

	case *ssa.Alloc:
		r.execAlloc(st, x)
		return st

	case *ssa.FieldAddr:
		base := r.ptr(x.X)
		stt := x.X.Type().Underlying().(*types.Pointer).Elem()
		su := stt.Underlying().(*types.Struct)
		ft := su.Field(x.Field).Type()
		off := e.sizes.Offsetsof(structFields(su))[x.Field]
		r.nilCheck(st, base, x.Pos(), describeInstr(x))
		switch base.Kind {
		case PLocal:
			np := base
			np.Path = append(append([]int{}, base.Path...), x.Field)
			np.T = ft
			r.vals[x] = np
		case PRaw:
			np := base
			np.Addr = tb.Add(base.Addr, tb.BVI(64, off))
			np.T = ft
			r.vals[x] = np
		case PObj:
			if _, isS := ft.Underlying().(*types.Struct); isS {
				r.vals[x] = PtrV{Kind: PObj, Addr: tb.Add(base.Addr, tb.BVI(64, off)), T: ft}
			} else if n, isBA := isByteArray(ft); isBA {
				fb := tb.App("fobj:"+fieldKey(stt, x.Field), BV64, base.Addr)
				r.fobjFacts(fb, base.Addr)
				r.vals[x] = PtrV{Kind: PByteObj, Base: fb, N: n, T: ft}
			} else {
				r.vals[x] = PtrV{Kind: PField, Addr: base.Addr, ST: su, STN: structKey(stt), Idx: x.Field, T: ft}
			}
		case PGlobal:
			np := base
			np.Path = append(append([]int{}, base.Path...), x.Field)
			np.T = ft
			r.vals[x] = np
		default:
			r.unsupported("FieldAddr on pointer kind %d", base.Kind)
		}
		return st

	case *ssa.Field:
		sv, ok := r.val(x.X).(StructV)
		if !ok {
			r.unsupported("Field on %T", r.val(x.X))
		}
		r.vals[x] = sv.Fields[x.Field]
		return st

	case *ssa.IndexAddr:
		r.execIndexAddr(st, x)
		return st

	case *ssa.Index:
		idx := r.scalar(r.val(x.Index))
		idx = r.toInt64(idx, x.Index.Type())
		switch a := r.val(x.X).(type) {
		case ArrV:
			r.boundsCheck(st, idx, tb.BVI(64, a.N), x.Pos(), describeInstr(x))
			r.vals[x] = Scalar{tb.Select(a.Arr, idx)}
		case SliceV:
			r.boundsCheck(st, idx, a.Len, x.Pos(), describeInstr(x))
			r.vals[x] = Scalar{r.byteAt(st, a, idx)}
		default:
			r.unsupported("Index on %T", a)
		}
		return st

	case *ssa.UnOp:
		r.execUnOp(st, x)
		return st

	case *ssa.BinOp:
		r.vals[x] = r.binop(st, x.Op, r.val(x.X), r.val(x.Y), x.X.Type(), x.Y.Type(), x.Pos(), describeInstr(x))
		return st

	case *ssa.Convert:
		r.vals[x] = r.convert(st, r.val(x.X), x.X.Type(), x.Type())
		return st

	case *ssa.ChangeType:
		if tp, ok := types.Unalias(x.X.Type()).(*types.TypeParam); ok && types.IsInterface(x.Type()) {
			// boxing a value of type parameter T (generic body): if T is not an interface type the result is a non-nil
			// interface whose dynamic type is T; if it is, the dynamic type is whatever the value holds
			tb := r.tb()
			tpt := r.e.typeArgTag(tp)
			r.root.notes["generic body verified once for all type arguments: boxing a value of type parameter "+tp.Obj().Name()+" yields a non-nil interface of dynamic type "+tp.Obj().Name()+" unless "+tp.Obj().Name()+" is an interface type (modelled, not derived from an instantiation)"] = true
			isI := tb.Eq(tb.App("ghost:rkind", BV64, tb.App("ghost:typedesc", BV64, tpt)), tb.BVI(64, 20))
			r.addFact(tb.Implies(tb.Not(isI), tb.Not(tb.Eq(tpt, tb.BVI(64, 0)))))
			r.vals[x] = IfaceV{Tag: tb.Ite(isI, tb.Fresh("tpbox.tag", BV64), tpt), Data: tb.Fresh("tpbox.data", BV64)}
			return st
		}
		r.vals[x] = r.val(x.X)
		return st

	case *ssa.ChangeInterface:
		r.vals[x] = r.val(x.X)
		return st

	case *ssa.MakeInterface:
		r.vals[x] = r.makeInterface(st, r.val(x.X), x.X.Type())
		return st

	case *ssa.TypeAssert:
		r.execTypeAssert(st, x)
		return st

	case *ssa.Extract:
		tv, ok := r.val(x.Tuple).(TupleV)
		if !ok {
			r.unsupported("Extract from %T", r.val(x.Tuple))
		}
		r.vals[x] = tv.Elems[x.Index]
		return st

	case *ssa.Slice:
		r.execSlice(st, x)
		return st

	case *ssa.MakeSlice:
		r.execMakeSlice(st, x)
		return st

	case *ssa.MakeMap:
		h := tb.Fresh("map!"+r.fn.Name(), BV64)
		r.addFact(tb.Ne(h, tb.BVI(64, 0)))
		r.vals[x] = Scalar{h}
		if r.root.freshMaps == nil {
			r.root.freshMaps = map[string][]freshMap{}
		}
		mtk := mapTypeKey(x.Type())
		r.root.freshMaps[mtk] = append(r.root.freshMaps[mtk], freshMap{h: h, t: x.Type().Underlying().(*types.Map)})
		r.mapInitEmpty(st, x.Type(), h)
		return st

	case *ssa.Lookup:
		r.execLookup(st, x)
		return st

	case *ssa.MapUpdate:
		r.execMapUpdate(st, x)
		return st

	case *ssa.Store:
		p := r.ptr(x.Addr)
		r.nilCheck(st, p, x.Pos(), describeInstr(x))
		r.store(st, p, x.Val.Type(), r.val(x.Val))
		return st

	case *ssa.Call:
		return r.execCall(st, x)

	case *ssa.Defer:
		r.defers = append(r.defers, x)
		return st

	case *ssa.RunDefers:
		for i := len(r.defers) - 1; i >= 0; i-- {
			st = r.execCallCommon(st, &r.defers[i].Call, nil, r.defers[i].Pos())
			if st == nil {
				return nil
			}
		}
		return st

	case *ssa.Jump:
		s := x.Block().Succs[0]
		r.pushEdge(in, x.Block(), s, st)
		return nil

	case *ssa.If:
		c := r.scalar(r.val(x.Cond))
		b := x.Block()
		t := st.Clone()
		t.PC = tb.And(st.PC, c)
		f := st.Clone()
		f.PC = tb.And(st.PC, tb.Not(c))
		r.pushEdge(in, b, b.Succs[0], t)
		r.pushEdge(in, b, b.Succs[1], f)
		return nil

	case *ssa.Return:
		var vs []Val
		for _, rv := range x.Results {
			vs = append(vs, r.val(rv))
		}
		r.rets = append(r.rets, retPoint{st: st, vals: vs})
		return nil

	case *ssa.Panic:
		if r.root.panics {
			r.oblige(st, "panic", "explicit", tb.False(), x.Pos(), describeInstr(x), []string{"C06"})
		}
		return nil

	case *ssa.Range:
		r.execRange(st, x)
		return st

	case *ssa.Next:
		r.execNext(st, x)
		return st
	}
	r.unsupported("instruction %T: %s", ins, ins)
	return nil
}

func (r *FnRun) pushEdge(in map[*ssa.BasicBlock][]edge, from, to *ssa.BasicBlock, st *State) {
	if st.PC.IsFalse() {
		return
	}
	if r.isBackEdge(from, to) {
		r.backEdge(r.loops[to], from, st)
		return
	}
	in[to] = append(in[to], edge{from, st})
}

func (r *FnRun) execAlloc(st *State, a *ssa.Alloc) {
	tb := r.tb()
	elem := a.Type().(*types.Pointer).Elem()
	name := fmt.Sprintf("%s.%s", r.fn.Name(), a.Name())
	switch r.allocKind[a] {
	case akLocal:
		st.Locals[a] = r.e.zeroVal(elem)
		r.vals[a] = PtrV{Kind: PLocal, Alloc: a, T: elem}
	case akRaw:
		addr := tb.Var("ra!"+name+r.label, BV64)
		size := r.e.sizeof(elem)
		r.freshRaw(st, addr, tb.BVI(64, size))
		st.M = tb.CopyRange(st.M, addr, r.zeroArr(), tb.BVI(64, 0), tb.BVI(64, size))
		r.vals[a] = PtrV{Kind: PRaw, Addr: addr, T: elem, Alloc: a}
	case akHeap:
		addr := tb.Var("ha!"+name+r.label, BV64)
		r.addFact(tb.Ne(addr, tb.BVI(64, 0)))
		r.addFact(tb.Not(tb.Select(r.rootEntry().RA, addr)))
		r.distinctFromParams(addr)
		for _, o := range r.root.localAddrs {
			if o != addr {
				r.addFact(tb.Ne(addr, o))
			}
		}
		r.root.localAddrs = append(r.root.localAddrs, addr)
		r.root.localSizes = append(r.root.localSizes, r.e.sizeof(elem))
		// a new object does not lie inside the backing array of a slice that existed before the allocation
		if os.Getenv("GOVC_DEBUG_MODS") != "" {
			fmt.Fprintf(os.Stderr, "alloc %s: %d known ranges\n", name, len(r.root.knownRanges))
		}
		for _, kr := range r.root.knownRanges {
			r.addFact(tb.Not(tb.ULt(tb.Sub(addr, kr[0]), kr[1])))
		}
		r.addFact(tb.ULt(addr, tb.BVU(64, 1<<47)))
		r.objStore(st, addr, elem, r.e.zeroVal(elem))
		r.vals[a] = PtrV{Kind: PObj, Addr: addr, T: elem}
	case akBytes:
		n, _ := isByteArray(elem)
		base := tb.Var("ba!"+name+r.label, BV64)
		r.freshBase(st, base)
		st.BH = tb.Store(st.BH, base, r.zeroArr())
		r.vals[a] = PtrV{Kind: PByteObj, Base: base, N: n, T: elem}
	}
}

// freshRaw: [addr, addr+size) is newly allocated raw memory.
func (r *FnRun) freshRaw(st *State, addr, size *Term) {
	tb := r.tb()
	r.addFact(tb.Ne(addr, tb.BVI(64, 0)))
	r.addFact(tb.ULt(addr, tb.BVU(64, 1<<47)))
	r.addFact(tb.ULt(size, tb.BVU(64, 1<<40)))
	// nothing in the range was allocated before
	k := tb.BoundVar("k", BV64)
	r.addFact(tb.Forall([]*Term{k}, tb.Implies(tb.ULt(tb.Sub(k, addr), size), tb.Not(tb.Select(st.RA, k))),
		[]*Term{tb.Select(st.RA, k)}))
	if size.IsConst() && size.Val.Int64() <= 32 {
		for i := int64(0); i < size.Val.Int64(); i++ {
			st.RA = tb.Store(st.RA, tb.Add(addr, tb.BVI(64, i)), tb.True())
		}
	} else {
		nra := tb.Fresh("RA", BoolAr)
		k2 := tb.BoundVar("k", BV64)
		r.addFact(tb.Forall([]*Term{k2}, tb.Eq(tb.Select(nra, k2), tb.Or(tb.Select(st.RA, k2), tb.ULt(tb.Sub(k2, addr), size))),
			[]*Term{tb.Select(nra, k2)}))
		st.RA = nra
	}
}

func (r *FnRun) freshBase(st *State, base *Term) {
	tb := r.tb()
	r.addFact(tb.Ne(base, tb.BVI(64, 0)))
	r.addFact(tb.Implies(st.PC, tb.Not(tb.Select(st.BA, base))))
	// objects allocated by the verified code never belong to a compressor's private buffers
	r.addFact(tb.Not(tb.App("cowned", BoolSort, base)))
	r.addFact(tb.Not(tb.App("rodata", BoolSort, base)))
	st.BA = tb.Store(st.BA, base, tb.True())
}

func (r *FnRun) distinctFromParams(addr *Term) {
	tb := r.tb()
	for i, p := range r.root.fn.Params {
		if _, ok := p.Type().Underlying().(*types.Pointer); ok && i < len(r.root.paramTerms) {
			if t := r.root.paramTerms[i]; t != nil {
				r.addFact(tb.Ne(addr, t))
			}
		}
	}
}

func (r *FnRun) toInt64(t *Term, typ types.Type) *Term {
	tb := r.tb()
	w, signed, ok := basicInfo(typ)
	if !ok {
		return t
	}
	if w == 64 {
		return t
	}
	if signed {
		return tb.SExt(t, 64)
	}
	return tb.ZExt(t, 64)
}

func (r *FnRun) boundsCheck(st *State, idx, n *Term, pos token.Pos, what string) {
	if !r.root.panics {
		return
	}
	tb := r.tb()
	r.oblige(st, "panic", "index", tb.ULt(idx, n), pos, what, []string{"C06"})
}

func (r *FnRun) execIndexAddr(st *State, x *ssa.IndexAddr) {
	tb := r.tb()
	idx := r.toInt64(r.scalar(r.val(x.Index)), x.Index.Type())
	switch xv := r.val(x.X).(type) {
	case SliceV:
		r.boundsCheck(st, idx, xv.Len, x.Pos(), describeInstr(x))
		if xv.Raw {
			r.vals[x] = PtrV{Kind: PRaw, Addr: tb.Add(xv.Off, idx), T: types.Typ[types.Uint8]}
		} else {
			r.vals[x] = PtrV{Kind: PByteEl, Base: xv.Base, Off: tb.Add(xv.Off, idx), T: types.Typ[types.Uint8]}
		}
	case PSlice:
		r.boundsCheck(st, idx, xv.Len, x.Pos(), describeInstr(x))
		sz := r.e.sizeof(xv.Elem)
		addr := tb.Add(xv.Ptr, tb.Mul(idx, tb.BVI(64, sz)))
		r.vals[x] = PtrV{Kind: PObj, Addr: addr, T: xv.Elem}
	case PtrV:
		switch xv.Kind {
		case PByteObj:
			r.boundsCheck(st, idx, tb.BVI(64, xv.N), x.Pos(), describeInstr(x))
			r.vals[x] = PtrV{Kind: PByteEl, Base: xv.Base, Off: idx, T: types.Typ[types.Uint8]}
		case PRaw:
			at := xv.T.Underlying().(*types.Array)
			r.boundsCheck(st, idx, tb.BVI(64, at.Len()), x.Pos(), describeInstr(x))
			sz := r.e.sizeof(at.Elem())
			np := xv
			np.Addr = tb.Add(xv.Addr, tb.Mul(idx, tb.BVI(64, sz)))
			np.T = at.Elem()
			r.vals[x] = np
		case PObj:
			at, ok := xv.T.Underlying().(*types.Array)
			if !ok {
				r.unsupported("IndexAddr on typed pointer to non-array")
			}
			r.boundsCheck(st, idx, tb.BVI(64, at.Len()), x.Pos(), describeInstr(x))
			sz := r.e.sizeof(at.Elem())
			r.vals[x] = PtrV{Kind: PObj, Addr: tb.Add(xv.Addr, tb.Mul(idx, tb.BVI(64, sz))), T: at.Elem()}
		case PLocal:
			at, ok := xv.T.Underlying().(*types.Array)
			if !ok || !idx.IsConst() {
				r.unsupported("IndexAddr into local with symbolic index")
			}
			_ = at
			np := xv
			np.Path = append(append([]int{}, xv.Path...), int(idx.Val.Int64()))
			np.T = at.Elem()
			r.vals[x] = np
		default:
			r.unsupported("IndexAddr on pointer kind %d", xv.Kind)
		}
	case Scalar:
		p := r.asPtr(xv, x.X.Type())
		if p.Kind == PByteObj {
			r.boundsCheck(st, idx, tb.BVI(64, p.N), x.Pos(), describeInstr(x))
			r.vals[x] = PtrV{Kind: PByteEl, Base: p.Base, Off: idx, T: types.Typ[types.Uint8]}
			return
		}
		r.unsupported("IndexAddr on scalar pointer to %s", x.X.Type())
	default:
		r.unsupported("IndexAddr on %T", xv)
	}
}

func (r *FnRun) execUnOp(st *State, x *ssa.UnOp) {
	tb := r.tb()
	switch x.Op {
	case token.MUL:
		p := r.ptr(x.X)
		r.nilCheck(st, p, x.Pos(), describeInstr(x))
		v := r.load(st, p, x.Type())
		// loaded pointers from raw memory stay numbers; static type decides later
		r.vals[x] = v
	case token.SUB:
		t := r.scalar(r.val(x.X))
		if isFloat(x.Type()) {
			r.unsupported("float negation")
		}
		r.vals[x] = Scalar{tb.Neg(t)}
	case token.NOT:
		r.vals[x] = Scalar{tb.Not(r.scalar(r.val(x.X)))}
	case token.XOR:
		r.vals[x] = Scalar{tb.BNot(r.scalar(r.val(x.X)))}
	default:
		r.unsupported("unary op %s", x.Op)
	}
}

func (r *FnRun) execSlice(st *State, x *ssa.Slice) {
	tb := r.tb()
	getIdx := func(v ssa.Value) *Term {
		if v == nil {
			return nil
		}
		return r.toInt64(r.scalar(r.val(v)), v.Type())
	}
	lo, hi, mx := getIdx(x.Low), getIdx(x.High), getIdx(x.Max)
	if mx != nil {
		r.unsupported("3-index slice")
	}
	zero := tb.BVI(64, 0)
	if lo == nil {
		lo = zero
	}
	check := func(limit *Term, hiv *Term) {
		if r.root.panics {
			// 0 <= lo <= hi <= limit (signed ints; limit >= 0)
			g := tb.And(tb.SLe(zero, lo), tb.SLe(lo, hiv), tb.SLe(hiv, limit))
			r.oblige(st, "panic", "slice", g, x.Pos(), describeInstr(x), []string{"C06"})
		}
	}
	switch xv := r.val(x.X).(type) {
	case SliceV:
		if xv.Cap == nil { // string
			if hi == nil {
				hi = xv.Len
			}
			check(xv.Len, hi)
			r.vals[x] = SliceV{Base: xv.Base, Off: tb.Add(xv.Off, lo), Len: tb.Sub(hi, lo), Raw: xv.Raw}
			return
		}
		if hi == nil {
			hi = xv.Len
		}
		check(xv.Cap, hi)
		r.vals[x] = SliceV{Base: xv.Base, Off: tb.Add(xv.Off, lo), Len: tb.Sub(hi, lo), Cap: tb.Sub(xv.Cap, lo), Raw: xv.Raw}
	case PSlice:
		if hi == nil {
			hi = xv.Len
		}
		check(xv.Cap, hi)
		sz := r.e.sizeof(xv.Elem)
		r.vals[x] = PSlice{Ptr: tb.Add(xv.Ptr, tb.Mul(lo, tb.BVI(64, sz))), Len: tb.Sub(hi, lo), Cap: tb.Sub(xv.Cap, lo), Elem: xv.Elem}
	case PtrV, Scalar:
		p := r.asPtr(xv, x.X.Type())
		if p.Kind == PGlobal && len(p.Path) == 0 {
			if n, ok := isByteArray(p.T); ok {
				// package-level byte array (immutable after init): a byte object with the global's stable content
				gb := tb.App("gobj:"+p.Glob.String(), BV64)
				key := "gobjfact:" + p.Glob.String()
				if r.root.counters[key] == 0 {
					r.root.counters[key] = 1
					av := r.e.globalVal(p.Glob, nil, p.T).(ArrV)
					r.addFact(tb.Eq(tb.Select(r.rootEntry().BH, gb), av.Arr))
					r.addFact(tb.Select(r.rootEntry().BA, gb))
					r.addFact(tb.Ne(gb, tb.BVI(64, 0)))
					r.addFact(tb.Not(tb.App("cowned", BoolSort, gb)))
				}
				p = PtrV{Kind: PByteObj, Base: gb, N: n, T: p.T}
			}
		}
		if p.Kind == PObj {
			if at, ok := p.T.Underlying().(*types.Array); ok {
				n := tb.BVI(64, at.Len())
				if hi == nil {
					hi = n
				}
				check(n, hi)
				sz := r.e.sizeof(at.Elem())
				r.vals[x] = PSlice{Ptr: tb.Add(p.Addr, tb.Mul(lo, tb.BVI(64, sz))), Len: tb.Sub(hi, lo), Cap: tb.Sub(n, lo), Elem: at.Elem()}
				return
			}
		}
		if p.Kind != PByteObj {
			r.unsupported("slice of pointer kind %d", p.Kind)
		}
		n := tb.BVI(64, p.N)
		if hi == nil {
			hi = n
		}
		check(n, hi)
		r.vals[x] = SliceV{Base: p.Base, Off: lo, Len: tb.Sub(hi, lo), Cap: tb.Sub(n, lo)}
	default:
		r.unsupported("Slice of %T", xv)
	}
}

func (r *FnRun) execMakeSlice(st *State, x *ssa.MakeSlice) {
	tb := r.tb()
	ln := r.toInt64(r.scalar(r.val(x.Len)), x.Len.Type())
	cp := r.toInt64(r.scalar(r.val(x.Cap)), x.Cap.Type())
	zero := tb.BVI(64, 0)
	if r.root.panics {
		r.oblige(st, "panic", "makelen", tb.And(tb.SLe(zero, ln), tb.SLe(ln, cp)), x.Pos(), describeInstr(x), []string{"C06"})
	}
	r.allocBound(st, ln, x.Pos(), describeInstr(x))
	if isByteSlice(x.Type()) {
		base := tb.Fresh("mk!"+r.fn.Name(), BV64)
		r.freshBase(st, base)
		st.BH = tb.Store(st.BH, base, r.zeroArr())
		r.vals[x] = SliceV{Base: base, Off: zero, Len: ln, Cap: cp}
		return
	}
	et := x.Type().Underlying().(*types.Slice).Elem()
	ptr := tb.Fresh("mkp!"+r.fn.Name(), BV64)
	r.addFact(tb.Ne(ptr, zero))
	r.addFact(tb.ULt(ptr, tb.BVU(64, 1<<47)))
	bytes := tb.Mul(cp, tb.BVI(64, r.e.sizeof(et)))
	for _, kr := range r.root.knownRanges {
		r.addFact(tb.Not(tb.ULt(tb.Sub(ptr, kr[0]), kr[1])))
	}
	r.distinctFromParams(ptr)
	r.root.localRanges = append(r.root.localRanges, [2]*Term{ptr, bytes})
	{
		// allocator semantics (assumed, as for append and for byte slices): the new backing array lies outside
		// everything that was allocated when the function was entered
		fa := tb.BoundVar("a", BV64)
		ra := r.rootEntry().RA
		r.addFact(tb.Forall([]*Term{fa}, tb.Implies(tb.ULt(tb.Sub(fa, ptr), bytes), tb.Not(tb.Select(ra, fa))), []*Term{tb.Select(ra, fa)}))
	}
	r.vals[x] = PSlice{Ptr: ptr, Len: ln, Cap: cp, Elem: et}
	r.root.notes["make of non-byte slice: element zero-initialisation not modelled"] = true
}

// allocBound: hook for C06 allocation bounds (filled in by contract 'bounded_by'); default none.
func (r *FnRun) allocBound(st *State, n *Term, pos token.Pos, what string) {}

// fobjFacts: the byte object embedded in a struct that existed at function entry is an allocated, non-nil object
// that does not belong to a compressor.
func (r *FnRun) fobjFacts(fb, structAddr *Term) {
	tb := r.tb()
	r.addFact(tb.Ne(fb, tb.BVI(64, 0)))
	r.addFact(tb.Not(tb.App("cowned", BoolSort, fb)))
	if structAddr.Op == "var" && r.isFreshAddr(structAddr) {
		return
	}
	r.addFact(tb.Select(r.rootEntry().BA, fb))
}
