package main

// Generator-side quantifier handling: polarity-aware skolemisation and instantiation so that the query
// handed to the solvers is quantifier free (see DESIGN 2.4).

import (
	"fmt"
	"os"
	"sort"
	"strings"
)

type instCtx struct {
	e           *Engine
	mulPool     map[string][]*Term // ground x occurring as bvmul(x, c), keyed by c
	rangeStarts []*Term            // ground first addresses a of range guards (k - a) <u n occurring under quantifiers
	pool        map[*Sort][]*Term  // candidate index terms by array sort of the select they occur under
	fam         map[string][]*Term // ... and by array family (the heap component the array is a version of)
	appArgs     map[string][][]*Term
	seenIdx     map[*Term]bool
	skolems     []*Term
	skCache     map[*Term]*Term
	bailed      bool // some quantifier could not be eliminated
}

func hasQuant(t *Term, cache map[*Term]bool) bool {
	if v, ok := cache[t]; ok {
		return v
	}
	r := false
	if t.Op == "forall" || t.Op == "exists" {
		r = true
	} else {
		for _, a := range t.Args {
			if hasQuant(a, cache) {
				r = true
				break
			}
		}
	}
	cache[t] = r
	return r
}

// collect ground select indices / app argument tuples from t (not descending into quantifier bodies).
func (ic *instCtx) collect(t *Term, visited map[*Term]bool) {
	if visited[t] {
		return
	}
	visited[t] = true
	if t.Op == "forall" || t.Op == "exists" {
		return
	}
	if t.Op == "select" && !t.hasBV {
		idx := t.Args[1]
		s := t.Args[0].Sort
		if !ic.seenIdx[idx] || true {
			found := false
			for _, x := range ic.pool[s] {
				if x == idx {
					found = true
					break
				}
			}
			if !found {
				ic.pool[s] = append(ic.pool[s], idx)
			}
			f := arrFamily(t.Args[0])
			found = false
			for _, x := range ic.fam[f] {
				if x == idx {
					found = true
					break
				}
			}
			if !found {
				ic.fam[f] = append(ic.fam[f], idx)
			}
		}
	}
	if t.Op == "app" && !t.hasBV && len(t.Args) > 0 {
		ic.appArgs[t.Name] = append(ic.appArgs[t.Name], t.Args)
	}
	if t.Op == "bvmul" && !t.hasBV {
		for i := 0; i < 2; i++ {
			if t.Args[i].IsConst() && !t.Args[1-i].IsConst() {
				k := t.Args[i].Val.String()
				dup := false
				for _, x := range ic.mulPool[k] {
					if x == t.Args[1-i] {
						dup = true
					}
				}
				if !dup {
					ic.mulPool[k] = append(ic.mulPool[k], t.Args[1-i])
				}
			}
		}
	}
	for _, a := range t.Args {
		ic.collect(a, visited)
	}
}

// collectRangeStarts records the ground start address of every range guard (bvult (bvsub k a) n) under a quantifier:
// the first byte of a range is the witness for "two ranges overlap" arguments over the allocation maps.
func (ic *instCtx) collectRangeStarts(t *Term, visited map[*Term]bool, inQ bool) {
	if visited[t] {
		return
	}
	visited[t] = true
	if t.Op == "forall" || t.Op == "exists" {
		inQ = true
	}
	if inQ && t.Op == "bvult" && t.Args[0].Op == "bvsub" && t.Args[0].Args[0].Op == "bound" && !t.Args[0].Args[1].hasBV {
		a := t.Args[0].Args[1]
		dup := false
		for _, x := range ic.rangeStarts {
			if x == a {
				dup = true
			}
		}
		if !dup && len(ic.rangeStarts) < 24 {
			ic.rangeStarts = append(ic.rangeStarts, a)
		}
	}
	for _, a := range t.Args {
		ic.collectRangeStarts(a, visited, inQ)
	}
}

// linear peel: idx = k + ground  -> returns ground sum (nil if idx == k), ok
func (ic *instCtx) peel(idx, k *Term) (*Term, bool) {
	tb := ic.e.tb
	if idx == k {
		return nil, true
	}
	if idx.Op == "bvadd" {
		a, b := idx.Args[0], idx.Args[1]
		if !a.hasBV {
			g, ok := ic.peel(b, k)
			if !ok {
				return nil, false
			}
			if g == nil {
				return a, true
			}
			return tb.Add(a, g), true
		}
		if !b.hasBV {
			g, ok := ic.peel(a, k)
			if !ok {
				return nil, false
			}
			if g == nil {
				return b, true
			}
			return tb.Add(b, g), true
		}
	}
	return nil, false
}

func containsTerm(t, k *Term, cache map[*Term]bool) bool {
	if t == k {
		return true
	}
	if !t.hasBV {
		return false
	}
	if v, ok := cache[t]; ok {
		return v
	}
	r := false
	for _, a := range t.Args {
		if containsTerm(a, k, cache) {
			r = true
			break
		}
	}
	cache[t] = r
	return r
}

// candidates for bound var k of quantifier body.
func (ic *instCtx) candidates(body, k *Term) []*Term {
	tb := ic.e.tb
	seen := map[*Term]bool{}
	var out []*Term
	add := func(t *Term) {
		if t != nil && !seen[t] && t.Sort == k.Sort && !t.hasBV {
			seen[t] = true
			out = append(out, t)
		}
	}
	cc := map[*Term]bool{}
	visited := map[*Term]bool{}
	var walk func(t *Term)
	walk = func(t *Term) {
		if visited[t] || !t.hasBV {
			return
		}
		visited[t] = true
		if t.Op == "select" && containsTerm(t.Args[1], k, cc) {
			if g, ok := ic.peel(t.Args[1], k); ok {
				f := arrFamily(t.Args[0])
				cands := ic.fam[f]
				if t.Args[0].hasBV || f == "" || f == "?" {
					cands = ic.pool[t.Args[0].Sort]
				}
				for _, c := range cands {
					if g == nil {
						add(c)
					} else {
						add(tb.Sub(c, g))
					}
				}
				// address-indexed ghost sets (allocation maps) are queried at the addresses of the memory they describe
				switch f {
				case "RA":
					if g == nil && os.Getenv("GOVC_NO_RS") == "" {
						for _, c := range ic.rangeStarts {
							add(c)
						}
					}
					for _, c := range ic.fam["M"] {
						if g == nil {
							add(c)
						} else {
							add(tb.Sub(c, g))
						}
					}
				case "BA":
					for _, c := range ic.fam["BH"] {
						if g == nil {
							add(c)
						} else {
							add(tb.Sub(c, g))
						}
					}
				case "M":
					for _, c := range ic.fam["RA"] {
						if g == nil {
							add(c)
						} else {
							add(tb.Sub(c, g))
						}
					}
				case "BH":
					for _, c := range ic.fam["BA"] {
						if g == nil {
							add(c)
						} else {
							add(tb.Sub(c, g))
						}
					}
				}
			}
		}
		if t.Op == "bvmul" {
			for i := 0; i < 2; i++ {
				if t.Args[i] == k && t.Args[1-i].IsConst() {
					for _, x := range ic.mulPool[t.Args[1-i].Val.String()] {
						add(x)
					}
				}
			}
		}
		if t.Op == "app" {
			for i, a := range t.Args {
				if a == k {
					for _, tuple := range ic.appArgs[t.Name] {
						if i < len(tuple) {
							add(tuple[i])
						}
					}
				}
			}
		}
		for _, a := range t.Args {
			walk(a)
		}
	}
	walk(body)
	if len(out) == 0 && k.Sort == BV64 && os.Getenv("GOVC_NO_PR") == "" {
		// pure address-range statement (no memory access under the binder): instantiate at the known raw addresses
		isRange := false
		v2 := map[*Term]bool{}
		var find func(t *Term)
		find = func(t *Term) {
			if v2[t] || !t.hasBV || isRange {
				return
			}
			v2[t] = true
			if t.Op == "bvult" && t.Args[0].Op == "bvsub" && t.Args[0].Args[0] == k {
				isRange = true
				return
			}
			for _, a := range t.Args {
				find(a)
			}
		}
		find(body)
		if isRange {
			for _, c := range ic.fam["M"] {
				add(c)
			}
			for _, c := range ic.fam["RA"] {
				add(c)
			}
		}
	}
	if len(out) > 300 {
		out = out[:300]
	}
	// skolem constants of the goal are the most relevant instances: never cut them off
	for _, s := range ic.skolems {
		add(s)
	}
	return out
}

var instDbg map[*Term]int

// rewrite eliminates quantifiers from hypothesis t (pol=true: t is asserted; pol=false: t is under a negation).
func (ic *instCtx) rewrite(t *Term, pol bool, qc map[*Term]bool, depth int) *Term {
	tb := ic.e.tb
	if !hasQuant(t, qc) {
		return t
	}
	switch t.Op {
	case "and", "or":
		args := make([]*Term, len(t.Args))
		for i, a := range t.Args {
			args[i] = ic.rewrite(a, pol, qc, depth)
		}
		if t.Op == "and" {
			return tb.And(args...)
		}
		return tb.Or(args...)
	case "not":
		return tb.Not(ic.rewrite(t.Args[0], !pol, qc, depth))
	case "=>":
		return tb.Implies(ic.rewrite(t.Args[0], !pol, qc, depth), ic.rewrite(t.Args[1], pol, qc, depth))
	case "ite":
		if t.Sort == BoolSort && !hasQuant(t.Args[0], qc) {
			return tb.Ite(t.Args[0], ic.rewrite(t.Args[1], pol, qc, depth), ic.rewrite(t.Args[2], pol, qc, depth))
		}
	case "=":
		if t.Args[0].Sort == BoolSort {
			a, b := t.Args[0], t.Args[1]
			// a <=> b  ==  (a => b) and (b => a)
			x := tb.And(tb.Implies(a, b), tb.Implies(b, a))
			return ic.rewrite(x, pol, qc, depth)
		}
	case "forall", "exists":
		universal := (t.Op == "forall") == pol
		if t.hasBV {
			break // nested under another binder with free bound vars: cannot handle here
		}
		if !universal {
			// skolemise (once per quantifier node)
			if b, ok := ic.skCache[t]; ok {
				return ic.rewrite(b, pol, qc, depth+1)
			}
			m := map[*Term]*Term{}
			for _, b := range t.Bound {
				sk := tb.Fresh("sk!"+b.Name, b.Sort)
				ic.skolems = append(ic.skolems, sk)
				m[b] = sk
			}
			body := tb.Subst(t.Args[0], m)
			ic.skCache[t] = body
			ic.collect(body, map[*Term]bool{})
			return ic.rewrite(body, pol, qc, depth+1)
		}
		if depth > 3 {
			break
		}
		// instantiate
		if len(t.Bound) == 1 {
			k := t.Bound[0]
			cands := ic.candidates(t.Args[0], k)
			if instDbg != nil {
				instDbg[t] += len(cands)
			}
			var insts []*Term
			for _, c := range cands {
				ck := [2]*Term{t, c}
				inst, ok := ic.e.instCache[ck]
				if !ok {
					inst = tb.Subst(t.Args[0], map[*Term]*Term{k: c})
					if ic.e.instCache == nil {
						ic.e.instCache = map[[2]*Term]*Term{}
					}
					ic.e.instCache[ck] = inst
				}
				insts = append(insts, ic.rewrite(inst, pol, qc, depth+1))
			}
			if pol {
				return tb.And(insts...) // weakening of a hypothesis
			}
			return tb.Or(insts...) // under negation: not(exists) weakened
		}
		if len(t.Bound) == 2 {
			k1, k2 := t.Bound[0], t.Bound[1]
			c1 := ic.candidates(t.Args[0], k1)
			c2 := ic.candidates(t.Args[0], k2)
			if len(c1)*len(c2) <= 100 {
				var insts []*Term
				for _, a := range c1 {
					for _, b := range c2 {
						inst := tb.Subst(t.Args[0], map[*Term]*Term{k1: a, k2: b})
						insts = append(insts, ic.rewrite(inst, pol, qc, depth+1))
					}
				}
				if pol {
					return tb.And(insts...)
				}
				return tb.Or(insts...)
			}
		}
	}
	// could not eliminate: drop (weaken) — a hypothesis becomes true, a negated one false
	ic.bailed = true
	if pol {
		return tb.True()
	}
	return tb.False()
}

// propagateEqualities substitutes x := t for every top-level hypothesis conjunct (= x t) in which x is a variable
// introduced by the generator (callee results, havoc values) and does not occur in t.
func (e *Engine) propagateEqualities(hyps []*Term) []*Term {
	tb := e.tb
	occurs := func(x, t *Term) bool {
		seen := map[*Term]bool{}
		var rec func(u *Term) bool
		rec = func(u *Term) bool {
			if u == x {
				return true
			}
			if seen[u] {
				return false
			}
			seen[u] = true
			for _, a := range u.Args {
				if rec(a) {
					return true
				}
			}
			return false
		}
		return rec(t)
	}
	isGen := func(x *Term) bool {
		if x.Op != "var" {
			return false
		}
		n := x.Name
		return strings.HasPrefix(n, "r!") || strings.HasPrefix(n, "hv_") || strings.HasPrefix(n, "apcap!") || strings.HasPrefix(n, "phi!") == false && strings.Contains(n, "!") && !strings.HasPrefix(n, "p!") && !strings.HasPrefix(n, "sk!") && !strings.HasPrefix(n, "ra!") && !strings.HasPrefix(n, "ha!") && !strings.HasPrefix(n, "ba!")
	}
	for iter := 0; iter < 200; iter++ {
		var x, t *Term
		idx := -1
		for i, h := range hyps {
			var conj []*Term
			if h.Op == "and" {
				conj = h.Args
			} else {
				conj = []*Term{h}
			}
			for _, c := range conj {
				if c.Op != "=" || c.Args[0].Sort.Kind == SArr && false {
					continue
				}
				a, b := c.Args[0], c.Args[1]
				if isGen(a) && !occurs(a, b) {
					x, t = a, b
				} else if isGen(b) && !occurs(b, a) {
					x, t = b, a
				}
				if x != nil {
					break
				}
			}
			if x != nil {
				idx = i
				break
			}
		}
		if x == nil {
			break
		}
		_ = idx
		m := map[*Term]*Term{x: t}
		out := make([]*Term, 0, len(hyps))
		for _, h := range hyps {
			nh := tb.Subst(h, m)
			if !nh.IsTrue() {
				out = append(out, nh)
			}
		}
		hyps = out
	}
	return hyps
}

// Prepare returns quantifier-free hypotheses (the negated goal included) for obligation o.
func (e *Engine) PrepareQF(o *Obligation) []*Term {
	tb := e.tb
	if os.Getenv("GOVC_INSTDBG") != "" && instDbg == nil {
		instDbg = map[*Term]int{}
	}
	ic := &instCtx{e: e, fam: map[string][]*Term{}, mulPool: map[string][]*Term{}, pool: map[*Sort][]*Term{}, appArgs: map[string][][]*Term{}, seenIdx: map[*Term]bool{}, skCache: map[*Term]*Term{}}
	all := append([]*Term{}, o.Hyps...)
	if o.Goal != nil && !o.Cover {
		all = append(all, tb.Not(o.Goal))
	} else if o.Goal != nil {
		all = append(all, o.Goal)
	}
	all = e.propagateEqualities(all)
	qc := map[*Term]bool{}
	// pass 0: skolems and ground terms
	vis := map[*Term]bool{}
	for _, h := range all {
		ic.collect(h, vis)
	}
	rs := map[*Term]bool{}
	for _, h := range all {
		ic.collectRangeStarts(h, rs, false)
	}
	// two rounds: instances of round 1 feed the pool for round 2
	var out []*Term
	prevSize := -1
	for round := 0; round < 9; round++ {
		out = out[:0]
		ic.bailed = false
		for _, h := range all {
			out = append(out, ic.rewrite(h, true, qc, 0))
		}
		vis = map[*Term]bool{}
		for _, h := range out {
			ic.collect(h, vis)
		}
		// fixpoint: no new candidate terms were produced by this round's instances
		size := 0
		for _, p := range ic.pool {
			size += len(p)
		}
		for _, p := range ic.fam {
			size += len(p)
		}
		for _, p := range ic.mulPool {
			size += len(p)
		}
		for _, p := range ic.appArgs {
			size += len(p)
		}
		if size == prevSize && round >= 1 {
			break
		}
		prevSize = size
	}
	if instDbg != nil {
		type kv struct {
			t *Term
			n int
		}
		var l []kv
		for t, n := range instDbg {
			l = append(l, kv{t, n})
		}
		sort.Slice(l, func(i, j int) bool { return l[i].n > l[j].n })
		for i := 0; i < len(l) && i < 6; i++ {
			sh := tb.Show(l[i].t)
			if len(sh) > 260 {
				sh = sh[:260]
			}
			fmt.Fprintf(os.Stderr, "   inst %d x %s\n", l[i].n, sh)
		}
		instDbg = map[*Term]int{}
	}
	// deterministic order of pools is given by traversal order; nothing else to do
	_ = sort.Strings
	return out
}

// arrFamily names the heap component an array term is a version of (M, BH, RA, a typed-heap field, a trace slot ...).
func arrFamily(t *Term) string {
	for depth := 0; depth < 200; depth++ {
		switch t.Op {
		case "store":
			t = t.Args[0]
			continue
		case "ite":
			t = t.Args[1]
			continue
		case "select":
			return arrFamily(t.Args[0]) + "[]"
		case "app":
			if t.Name == "copyrange" {
				t = t.Args[0]
				continue
			}
			return "app:" + t.Name
		case "var":
			n := t.Name
			for _, p := range []string{"H0:", "H:", "G0:", "G:", "hv:"} {
				n = strings.TrimPrefix(n, p)
			}
			// sanitised names use '_' for ':'
			for _, p := range []string{"H0_", "H_", "G0_", "G_", "hv_"} {
				n = strings.TrimPrefix(n, p)
			}
			if i := strings.Index(n, "!"); i >= 0 {
				n = n[:i]
			}
			switch n {
			case "M0":
				return "M"
			case "BH0":
				return "BH"
			case "RA0":
				return "RA"
			case "BA0":
				return "BA"
			case "SB0":
				return "SB"
			case "SO0":
				return "SO"
			}
			return n
		case "bound":
			return "?"
		}
		return "?"
	}
	return "?"
}
