package main

// Contract files: structured comments (//@ lines) and .spec files, and the
// expression language used in them.

import (
	"fmt"
	"math/big"
	"os"
	"path/filepath"
	"strconv"
	"strings"
)

// ---------------- expression AST ----------------

type Expr struct {
	Kind string // ident int str bool unary binary call index field cond forall exists slice
	Op   string
	Name string
	Args []*Expr
	Lit  *big.Int
	Str  string
	// quantifier
	BVars  []string
	BTypes []string
	Src    string
}

func (e *Expr) String() string {
	if e == nil {
		return "<nil>"
	}
	switch e.Kind {
	case "ident":
		return e.Name
	case "int":
		return e.Lit.String()
	case "str":
		return strconv.Quote(e.Str)
	case "bool":
		return e.Name
	case "unary":
		return e.Op + e.Args[0].String()
	case "binary":
		return "(" + e.Args[0].String() + " " + e.Op + " " + e.Args[1].String() + ")"
	case "call":
		var as []string
		for _, a := range e.Args {
			as = append(as, a.String())
		}
		return e.Name + "(" + strings.Join(as, ", ") + ")"
	case "index":
		return e.Args[0].String() + "[" + e.Args[1].String() + "]"
	case "field":
		return e.Args[0].String() + "." + e.Name
	case "cond":
		return "(" + e.Args[0].String() + " ? " + e.Args[1].String() + " : " + e.Args[2].String() + ")"
	case "forall", "exists":
		return e.Kind + " " + strings.Join(e.BVars, ",") + " :: " + e.Args[0].String()
	}
	return "?" + e.Kind
}

type ctok struct {
	k string // id int str op eof
	s string
	v *big.Int
}

type lexer struct {
	src  string
	pos  int
	toks []ctok
}

var ops3 = []string{"<==>", "==>", "<<=", ">>=", "&^"}
var ops2 = []string{"==", "!=", "<=", ">=", "&&", "||", "<<", ">>", "::", ":=", ".."}

func lex(src string) ([]ctok, error) {
	var toks []ctok
	i := 0
	for i < len(src) {
		c := src[i]
		switch {
		case c == ' ' || c == '\t':
			i++
		case c == '/' && i+1 < len(src) && src[i+1] == '/':
			i = len(src)
		case isIdStart(c):
			j := i
			for j < len(src) && (isIdStart(src[j]) || isDigit(src[j])) {
				j++
			}
			toks = append(toks, ctok{k: "id", s: src[i:j]})
			i = j
		case isDigit(c):
			j := i
			for j < len(src) && (isDigit(src[j]) || isIdStart(src[j])) {
				j++
			}
			txt := strings.ReplaceAll(src[i:j], "_", "")
			v, ok := new(big.Int).SetString(txt, 0)
			if !ok {
				// forms like 1e9
				f, err := strconv.ParseFloat(txt, 64)
				if err != nil {
					return nil, fmt.Errorf("bad number %q", src[i:j])
				}
				v = big.NewInt(int64(f))
			}
			toks = append(toks, ctok{k: "int", s: src[i:j], v: v})
			i = j
		case c == '"':
			j := i + 1
			for j < len(src) && src[j] != '"' {
				if src[j] == '\\' {
					j++
				}
				j++
			}
			if j >= len(src) {
				return nil, fmt.Errorf("unterminated string")
			}
			s, err := strconv.Unquote(src[i : j+1])
			if err != nil {
				return nil, err
			}
			toks = append(toks, ctok{k: "str", s: s})
			i = j + 1
		case c == '\'':
			j := i + 1
			for j < len(src) && src[j] != '\'' {
				if src[j] == '\\' {
					j++
				}
				j++
			}
			r, _, _, err := strconv.UnquoteChar(src[i+1:j], '\'')
			if err != nil {
				return nil, err
			}
			toks = append(toks, ctok{k: "int", s: src[i : j+1], v: big.NewInt(int64(r))})
			i = j + 1
		default:
			matched := false
			for _, o := range ops3 {
				if strings.HasPrefix(src[i:], o) {
					toks = append(toks, ctok{k: "op", s: o})
					i += len(o)
					matched = true
					break
				}
			}
			if matched {
				continue
			}
			for _, o := range ops2 {
				if strings.HasPrefix(src[i:], o) {
					toks = append(toks, ctok{k: "op", s: o})
					i += len(o)
					matched = true
					break
				}
			}
			if matched {
				continue
			}
			toks = append(toks, ctok{k: "op", s: string(c)})
			i++
		}
	}
	toks = append(toks, ctok{k: "eof"})
	return toks, nil
}

func isIdStart(c byte) bool {
	return c == '_' || c == '$' || (c >= 'a' && c <= 'z') || (c >= 'A' && c <= 'Z')
}
func isDigit(c byte) bool { return c >= '0' && c <= '9' }

type parser struct {
	toks []ctok
	p    int
	src  string
}

func (p *parser) peek() ctok { return p.toks[p.p] }
func (p *parser) next() ctok { t := p.toks[p.p]; p.p++; return t }
func (p *parser) isOp(s string) bool {
	t := p.peek()
	return t.k == "op" && t.s == s
}
func (p *parser) accept(s string) bool {
	if p.isOp(s) {
		p.p++
		return true
	}
	return false
}
func (p *parser) expect(s string) {
	if !p.accept(s) {
		panic(fmt.Errorf("expected %q at token %d (%q) in %q", s, p.p, p.peek().s, p.src))
	}
}

func ParseExpr(src string) (e *Expr, err error) {
	defer func() {
		if r := recover(); r != nil {
			if er, ok := r.(error); ok {
				err = er
				return
			}
			panic(r)
		}
	}()
	toks, err := lex(src)
	if err != nil {
		return nil, fmt.Errorf("%v in %q", err, src)
	}
	p := &parser{toks: toks, src: src}
	e = p.parseExpr()
	if p.peek().k != "eof" {
		return nil, fmt.Errorf("trailing tokens at %q in %q", p.peek().s, src)
	}
	e.Src = src
	return e, nil
}

// precedence climbing. Lowest: <==>, ==>, ?:, ||, &&, comparison, + - | ^, * / % << >> & &^
func (p *parser) parseExpr() *Expr {
	t := p.peek()
	if t.k == "id" && (t.s == "forall" || t.s == "exists") {
		p.next()
		q := &Expr{Kind: t.s}
		for {
			v := p.next()
			if v.k != "id" {
				panic(fmt.Errorf("bad quantifier var in %q", p.src))
			}
			typ := "int"
			if p.peek().k == "id" {
				typ = p.next().s
			}
			q.BVars = append(q.BVars, v.s)
			q.BTypes = append(q.BTypes, typ)
			if !p.accept(",") {
				break
			}
		}
		p.expect("::")
		q.Args = []*Expr{p.parseExpr()}
		return q
	}
	return p.parseIff()
}

func (p *parser) parseIff() *Expr {
	l := p.parseImp()
	for p.accept("<==>") {
		r := p.parseImp()
		l = &Expr{Kind: "binary", Op: "<==>", Args: []*Expr{l, r}}
	}
	return l
}

func (p *parser) parseImp() *Expr {
	l := p.parseCond()
	if p.accept("==>") {
		var r *Expr
		t := p.peek()
		if t.k == "id" && (t.s == "forall" || t.s == "exists") {
			r = p.parseExpr()
		} else {
			r = p.parseImp()
		}
		return &Expr{Kind: "binary", Op: "==>", Args: []*Expr{l, r}}
	}
	return l
}

func (p *parser) parseCond() *Expr {
	c := p.parseBin(0)
	if p.accept("?") {
		a := p.parseCond()
		p.expect(":")
		b := p.parseCond()
		return &Expr{Kind: "cond", Args: []*Expr{c, a, b}}
	}
	return c
}

var binPrec = map[string]int{
	"||": 1, "&&": 2,
	"==": 3, "!=": 3, "<": 3, "<=": 3, ">": 3, ">=": 3,
	"+": 4, "-": 4, "|": 4, "^": 4,
	"*": 5, "/": 5, "%": 5, "<<": 5, ">>": 5, "&": 5, "&^": 5,
}

func (p *parser) parseBin(min int) *Expr {
	l := p.parseUnary()
	for {
		t := p.peek()
		if t.k != "op" {
			return l
		}
		pr, ok := binPrec[t.s]
		if !ok || pr <= min {
			return l
		}
		p.next()
		r := p.parseBin(pr)
		l = &Expr{Kind: "binary", Op: t.s, Args: []*Expr{l, r}}
	}
}

func (p *parser) parseUnary() *Expr {
	t := p.peek()
	if t.k == "id" && (t.s == "forall" || t.s == "exists") {
		return p.parseExpr()
	}
	if t.k == "op" && (t.s == "!" || t.s == "-" || t.s == "^") {
		p.next()
		x := p.parseUnary()
		return &Expr{Kind: "unary", Op: t.s, Args: []*Expr{x}}
	}
	return p.parsePostfix()
}

func (p *parser) parsePostfix() *Expr {
	var e *Expr
	t := p.next()
	switch t.k {
	case "int":
		e = &Expr{Kind: "int", Lit: t.v}
	case "str":
		e = &Expr{Kind: "str", Str: t.s}
	case "id":
		switch t.s {
		case "true", "false":
			e = &Expr{Kind: "bool", Name: t.s}
		default:
			e = &Expr{Kind: "ident", Name: t.s}
		}
	case "op":
		if t.s == "(" {
			e = p.parseExpr()
			p.expect(")")
		} else if t.s == "[" && p.isOp("]") {
			// []byte(x) conversion
			p.next()
			id := p.next()
			e = &Expr{Kind: "ident", Name: "[]" + id.s}
		} else {
			panic(fmt.Errorf("unexpected %q in %q", t.s, p.src))
		}
	default:
		panic(fmt.Errorf("unexpected end in %q", p.src))
	}
	for {
		switch {
		case p.accept("("):
			var args []*Expr
			if !p.isOp(")") {
				for {
					args = append(args, p.parseExpr())
					if !p.accept(",") {
						break
					}
				}
			}
			p.expect(")")
			name := ""
			if e.Kind == "ident" {
				name = e.Name
			} else if e.Kind == "field" {
				name = e.Args[0].String() + "." + e.Name
			} else {
				panic(fmt.Errorf("call of non-name in %q", p.src))
			}
			e = &Expr{Kind: "call", Name: name, Args: args}
		case p.accept("["):
			i := p.parseExpr()
			p.expect("]")
			e = &Expr{Kind: "index", Args: []*Expr{e, i}}
		case p.accept("."):
			id := p.next()
			if id.k != "id" {
				panic(fmt.Errorf("bad selector in %q", p.src))
			}
			e = &Expr{Kind: "field", Name: id.s, Args: []*Expr{e}}
		default:
			return e
		}
	}
}

// ---------------- contract blocks ----------------

type Clause struct {
	Tags []string
	E    *Expr
	Text string
	Name string // optional label
}

type LoopSpec struct {
	StepAsserts []*Clause // checkpoints at the back edge (checked, then assumed, before the invariants are checked)
	ApplyWhen   []*Expr   // optional guard of each application (nil: unconditional)
	Applies     []*Expr   // lemma applications at the loop head: premise proved as an obligation, conclusion assumed
	Lets        []LetDef  // ghost snapshots taken at the loop head (after the invariants are assumed)
	Progress    *Expr
	Exit        []*Clause
	ExitUses    []*Expr
	Uses        []*Expr
	Inv         []*Clause
	Dec         *Expr
	Mods        []string
}

type LetDef struct {
	Name string
	E    *Expr
}

type Contract struct {
	Key          string // function key as written
	Pkg          string // package path the block belongs to ("" = fully-qualified key)
	File         string
	Lets         []LetDef
	Requires     []*Clause
	Ensures      []*Clause
	Modifies     []string // raw target strings
	HasMod       bool
	Loops        map[int]*LoopSpec
	Pure         bool
	Trusted      bool   // contract assumed, body not verified
	ViewName     string // set for `view NAME of FUNC` contracts
	ViewOf       string // full key of the function the view belongs to
	Inline       bool
	External     bool // from externals.spec: assumed
	Emits        []*Clause
	NoBody       bool
	Props        map[string]bool
	Fresh        []string // result components declared fresh
	Decreases    *Expr
	Notes        []string
	Uses         []*Expr
	Implements   []string
	Measure      *Expr // termination measure of a recursive function: must decrease (and stay >= 0) at every call to a function that also declares one
	SplitReturns bool  // check the postconditions separately at every return statement (simpler terms than the merged state)
	ExactEmits   bool  // the declared emits are exactly the function's own activation trace (checked)
	Asserts      []*MidAssert
	Returns      []LetDef // `returns r = e`: result r of an assumed (external) function IS the value of e, an expression over the arguments
}

type MidAssert struct {
	Callee    string // when set, N is the occurrence of calls to this callee
	N         int
	Cl        *Clause
	Before    bool  // `before Callee#k ...`: evaluated just before the call
	CheckOnly bool  // `after .. check`: proved but not assumed afterwards
	Apply     *Expr // lemma application instead of an assertion: premise proved, conclusion assumed
	When      *Expr
}

type SpecFunc struct {
	Name     string
	Params   []string
	PTypes   []string
	Ret      string
	Body     *Expr
	Uninterp bool
	ReadsM   bool // ghost function of the raw memory (M and the slice-header shadows) as well
}

type Lemma struct {
	Params []string
	PTypes []string
	Name   string
	Tags   []string
	E      *Expr
	Text   string
}

type TypeAttr struct {
	TypeKey string // e.g. "IntCodec[int32]" or "*arrayCodec"
	Pkg     string
	Attrs   map[string]*AttrDef // attr -> definition over receiver "this" (and extra params)
}

type AttrDef struct {
	Params []string
	Body   *Expr
}

type GlobalFact struct {
	Pkg  string
	E    *Expr
	Text string
}

type Specs struct {
	Contracts map[string]*Contract // key: pkgpath + "::" + funcKey, or fully-qualified
	Specs     map[string]*SpecFunc
	Lemmas    []*Lemma
	TypeAttrs []*TypeAttr
	Globals   []*GlobalFact
	Ifaces    map[string]*Contract // "pkg.Iface.Method"
	Axioms    map[string]*SpecFunc
	Views     []*Contract       // implementation-level contracts (view NAME of FUNC)
	Guards    map[string]string // pkg.mapVar -> pkg.mutexVar
}

func NewSpecs() *Specs {
	return &Specs{Contracts: map[string]*Contract{}, Specs: map[string]*SpecFunc{}, Ifaces: map[string]*Contract{}, Axioms: map[string]*SpecFunc{}}
}

func parseTags(s string) ([]string, string) {
	s = strings.TrimSpace(s)
	if strings.HasPrefix(s, "[") {
		j := strings.Index(s, "]")
		if j > 0 {
			inner := s[1:j]
			ok := true
			for _, r := range inner {
				if !(r == ',' || r == ' ' || (r >= 'A' && r <= 'Z') || (r >= 'a' && r <= 'z') || (r >= '0' && r <= '9') || r == '_' || r == '-') {
					ok = false
				}
			}
			if ok {
				var tags []string
				for _, t := range strings.Split(inner, ",") {
					t = strings.TrimSpace(t)
					if t != "" {
						tags = append(tags, t)
					}
				}
				return tags, strings.TrimSpace(s[j+1:])
			}
		}
	}
	return nil, s
}

// LoadSpecLines parses the logical lines of one contract source.
func (sp *Specs) LoadSpecLines(lines []string, pkg, file string, external bool) error {
	var cur []*Contract
	// join continuation lines (ending with backslash)
	var joined []string
	acc := ""
	for _, l := range lines {
		l = strings.TrimRight(l, " \t")
		if strings.HasSuffix(l, "\\") {
			acc += strings.TrimSuffix(l, "\\") + " "
			continue
		}
		joined = append(joined, acc+l)
		acc = ""
	}
	for ln, raw := range joined {
		l := strings.TrimSpace(raw)
		if l == "" || strings.HasPrefix(l, "#") || strings.HasPrefix(l, "//") {
			continue
		}
		// strip trailing comment " // ..."
		if i := strings.Index(l, " // "); i >= 0 {
			l = strings.TrimSpace(l[:i])
		}
		word, rest := l, ""
		if i := strings.IndexAny(l, " \t"); i >= 0 {
			word, rest = l[:i], strings.TrimSpace(l[i+1:])
		}
		fail := func(err error) error {
			return fmt.Errorf("%s:%d: %v (line: %s)", file, ln+1, err, l)
		}
		switch word {
		case "spec", "ghost":
			sf, err := parseSpecFunc(rest, word == "ghost")
			if err != nil {
				return fail(err)
			}
			sp.Specs[sf.Name] = sf
			cur = nil
		case "axiom":
			// axiom NAME(params): expr   -- assumed schema, instantiated only through 'uses' clauses
			i := strings.Index(rest, "):")
			if i < 0 {
				return fail(fmt.Errorf("axiom needs NAME(params): expr"))
			}
			sf, err := parseSpecFunc(rest[:i+1]+" bool = "+rest[i+2:], false)
			if err != nil {
				return fail(err)
			}
			sp.Axioms[sf.Name] = sf
			cur = nil
		case "lemma":
			i := strings.Index(rest, ":")
			if i < 0 {
				return fail(fmt.Errorf("lemma needs name:"))
			}
			name := strings.TrimSpace(rest[:i])
			var pnames, ptypes []string
			if j := strings.Index(name, "("); j >= 0 {
				for _, p := range strings.Split(strings.TrimSuffix(name[j+1:], ")"), ",") {
					f := strings.Fields(p)
					if len(f) == 2 {
						pnames = append(pnames, f[0])
						ptypes = append(ptypes, f[1])
					}
				}
				name = strings.TrimSpace(name[:j])
			}
			tags, body := parseTags(rest[i+1:])
			e, err := ParseExpr(body)
			if err != nil {
				return fail(err)
			}
			sp.Lemmas = append(sp.Lemmas, &Lemma{Name: name, Tags: tags, E: e, Text: body, Params: pnames, PTypes: ptypes})
			cur = nil
		case "guard":
			// guard MAPVAR by MUTEXVAR : the package-level map is only accessed with the package-level mutex held (C12)
			f := strings.Fields(rest)
			if len(f) != 3 || f[1] != "by" {
				return fail(fmt.Errorf("expected: guard MAP by MUTEX"))
			}
			if sp.Guards == nil {
				sp.Guards = map[string]string{}
			}
			sp.Guards[pkg+"."+f[0]] = pkg + "." + f[2]
			cur = nil
		case "global":
			e, err := ParseExpr(rest)
			if err != nil {
				return fail(err)
			}
			sp.Globals = append(sp.Globals, &GlobalFact{Pkg: pkg, E: e, Text: rest})
			cur = nil
		case "type":
			// type KEY [for T in a,b] : attr = expr ; attr(params) = expr
			i := strings.Index(rest, ":")
			if i < 0 {
				return fail(fmt.Errorf("type needs ':'"))
			}
			head := strings.TrimSpace(rest[:i])
			insts := []string{""}
			tv := ""
			if k := strings.Index(head, " for "); k >= 0 {
				f := strings.Fields(head[k+5:])
				if len(f) < 3 || f[1] != "in" {
					return fail(fmt.Errorf("bad 'for T in ...'"))
				}
				tv = f[0]
				insts = strings.Split(strings.Join(f[2:], ""), ",")
				head = strings.TrimSpace(head[:k])
			}
			for _, in := range insts {
				key, body := head, rest[i+1:]
				if tv != "" {
					key = strings.ReplaceAll(key, "["+tv+"]", "["+in+"]")
					body = substTypeVar(body, tv, in)
				}
				ta := &TypeAttr{TypeKey: key, Pkg: pkg, Attrs: map[string]*AttrDef{}}
				for _, part := range splitTop(body, ';') {
					part = strings.TrimSpace(part)
					if part == "" {
						continue
					}
					j := strings.Index(part, "=")
					if j < 0 {
						return fail(fmt.Errorf("bad attr %q", part))
					}
					e, err := ParseExpr(strings.TrimSpace(part[j+1:]))
					if err != nil {
						return fail(err)
					}
					hd := strings.TrimSpace(part[:j])
					ad := &AttrDef{Body: e}
					if k := strings.Index(hd, "("); k >= 0 {
						for _, pn := range strings.Split(strings.TrimSuffix(hd[k+1:], ")"), ",") {
							ad.Params = append(ad.Params, strings.TrimSpace(pn))
						}
						hd = strings.TrimSpace(hd[:k])
					}
					ta.Attrs[hd] = ad
				}
				sp.TypeAttrs = append(sp.TypeAttrs, ta)
			}
			cur = nil
		case "func", "iface", "view":
			// func KEY [for T in a,b,c]   |   view NAME of KEY : a second, implementation-level contract of a function whose
			// main contract is trusted at call sites; the body is verified against the view
			key := rest
			viewName := ""
			if word == "view" {
				f := strings.SplitN(rest, " of ", 2)
				if len(f) != 2 {
					return fail(fmt.Errorf("expected: view NAME of FUNC"))
				}
				viewName, key, rest = strings.TrimSpace(f[0]), strings.TrimSpace(f[1]), strings.TrimSpace(f[1])
			}
			var insts []string
			tv := ""
			if i := strings.Index(rest, " for "); i >= 0 {
				key = strings.TrimSpace(rest[:i])
				f := strings.Fields(rest[i+5:])
				if len(f) < 3 || f[1] != "in" {
					return fail(fmt.Errorf("bad 'for T in ...'"))
				}
				tv = f[0]
				insts = strings.Split(strings.Join(f[2:], ""), ",")
			}
			cur = nil
			mk := func(k string) *Contract {
				c := &Contract{Key: k, Pkg: pkg, File: file, Loops: map[int]*LoopSpec{}, External: external, Props: map[string]bool{}}
				if word == "view" {
					full := k
					if pkg != "" {
						full = pkg + "::" + k
					}
					c.ViewName = viewName
					sp.Views = append(sp.Views, c)
					c.ViewOf = full
				} else if word == "iface" {
					ik := k
					if pkg != "" && !strings.Contains(k, "/") && !strings.HasPrefix(k, "funcval ") {
						ik = pkg + "." + k
					}
					sp.Ifaces[ik] = c
				} else {
					full := k
					if pkg != "" {
						full = pkg + "::" + k
					}
					if _, dup := sp.Contracts[full]; dup {
						panic(fmt.Sprintf("%s: duplicate contract for %s", file, full))
					}
					sp.Contracts[full] = c
				}
				return c
			}
			if tv == "" {
				cur = []*Contract{mk(key)}
			} else {
				for _, in := range insts {
					c := mk(strings.ReplaceAll(key, "["+tv+"]", "["+in+"]"))
					c.Notes = append(c.Notes, tv+"="+in)
					cur = append(cur, c)
				}
			}
		default:
			if len(cur) == 0 {
				return fail(fmt.Errorf("clause outside func block"))
			}
			for _, c := range cur {
				r := rest
				for _, n := range c.Notes {
					kv := strings.SplitN(n, "=", 2)
					r = substTypeVar(r, kv[0], kv[1])
				}
				if err := c.addClause(word, r); err != nil {
					return fail(err)
				}
			}
		}
	}
	return nil
}

// substTypeVar replaces identifier tv by inst in clause text (whole-word).
func substTypeVar(s, tv, inst string) string {
	var sb strings.Builder
	i := 0
	for i < len(s) {
		if isIdStart(s[i]) {
			j := i
			for j < len(s) && (isIdStart(s[j]) || isDigit(s[j])) {
				j++
			}
			w := s[i:j]
			if w == tv {
				sb.WriteString(inst)
			} else {
				sb.WriteString(w)
			}
			i = j
			continue
		}
		sb.WriteByte(s[i])
		i++
	}
	return sb.String()
}

func (c *Contract) addClause(word, rest string) error {
	switch word {
	case "requires", "ensures", "emits":
		tags, body := parseTags(rest)
		e, err := ParseExpr(body)
		if err != nil {
			return err
		}
		cl := &Clause{Tags: tags, E: e, Text: body}
		for _, t := range tags {
			c.Props[t] = true
		}
		switch word {
		case "requires":
			c.Requires = append(c.Requires, cl)
		case "ensures":
			c.Ensures = append(c.Ensures, cl)
		case "emits":
			c.Emits = append(c.Emits, cl)
		}
	case "uses":
		e, err := ParseExpr(rest)
		if err != nil {
			return err
		}
		if e.Kind != "call" {
			return fmt.Errorf("uses expects AXIOM(args)")
		}
		c.Uses = append(c.Uses, e)
	case "measure":
		e, err := ParseExpr(rest)
		if err != nil {
			return err
		}
		c.Measure = e
	case "splitreturns":
		c.SplitReturns = true
	case "exactemits":
		c.ExactEmits = true
	case "after", "before":
		// after N[-M] assert expr : intermediate assertion checked (and then assumed) after the N-th call instruction
		f := strings.SplitN(rest, " ", 3)
		if len(f) < 3 || (f[1] != "assert" && f[1] != "apply" && f[1] != "check") {
			return fmt.Errorf("expected: after N[-M] assert expr")
		}
		lo, hi := 0, 0
		if !isDigit(f[0][0]) {
			// after Callee#k assert expr : keyed by callee name and occurrence (robust against unrelated edits)
			name, occ := f[0], 1
			if i := strings.Index(f[0], "#"); i >= 0 {
				name = f[0][:i]
				occ, _ = strconv.Atoi(f[0][i+1:])
			}
			if f[1] == "apply" {
				// after Callee#k apply LEMMA(args) [when cond]
				body := f[2]
				var when *Expr
				if k := strings.LastIndex(body, " when "); k >= 0 {
					w, err := ParseExpr(strings.TrimSpace(body[k+6:]))
					if err != nil {
						return err
					}
					when = w
					body = body[:k]
				}
				e, err := ParseExpr(body)
				if err != nil {
					return err
				}
				if e.Kind != "call" {
					return fmt.Errorf("after .. apply expects LEMMA(args)")
				}
				c.Asserts = append(c.Asserts, &MidAssert{Callee: name, N: occ, Cl: &Clause{E: e, Text: f[2]}, Apply: e, When: when, Before: word == "before"})
				return nil
			}
			tags, body := parseTags(f[2])
			e, err := ParseExpr(body)
			if err != nil {
				return err
			}
			c.Asserts = append(c.Asserts, &MidAssert{Callee: name, N: occ, Cl: &Clause{Tags: tags, E: e, Text: body}, CheckOnly: f[1] == "check", Before: word == "before"})
			return nil
		}
		if i := strings.Index(f[0], "-"); i >= 0 {
			lo, _ = strconv.Atoi(f[0][:i])
			hi, _ = strconv.Atoi(f[0][i+1:])
		} else {
			lo, _ = strconv.Atoi(f[0])
			hi = lo
		}
		tags, body := parseTags(f[2])
		e, err := ParseExpr(body)
		if err != nil {
			return err
		}
		for n := lo; n <= hi; n++ {
			c.Asserts = append(c.Asserts, &MidAssert{N: n, Cl: &Clause{Tags: tags, E: e, Text: body}})
		}
	case "implements":
		for _, t := range strings.Split(rest, ",") {
			c.Implements = append(c.Implements, strings.TrimSpace(t))
		}
	case "props":
		for _, t := range strings.Split(rest, ",") {
			c.Props[strings.TrimSpace(t)] = true
		}
	case "let":
		for _, part := range splitTop(rest, ',') {
			i := strings.Index(part, ":=")
			if i < 0 {
				return fmt.Errorf("bad let %q", part)
			}
			e, err := ParseExpr(strings.TrimSpace(part[i+2:]))
			if err != nil {
				return err
			}
			c.Lets = append(c.Lets, LetDef{Name: strings.TrimSpace(part[:i]), E: e})
		}
	case "modifies":
		c.HasMod = true
		for _, part := range splitTop(rest, ',') {
			part = strings.TrimSpace(part)
			if part != "" && part != "nothing" {
				c.Modifies = append(c.Modifies, part)
			}
		}
	case "pure":
		c.Pure = true
		c.HasMod = true
	case "trusted":
		c.Trusted = true
	case "returns":
		i := strings.Index(rest, "=")
		if i < 0 {
			return fmt.Errorf("bad returns clause (want: returns name = expr)")
		}
		e, err := ParseExpr(strings.TrimSpace(rest[i+1:]))
		if err != nil {
			return err
		}
		c.Returns = append(c.Returns, LetDef{Name: strings.TrimSpace(rest[:i]), E: e})
	case "inline":
		c.Inline = true
	case "fresh":
		for _, part := range splitTop(rest, ',') {
			c.Fresh = append(c.Fresh, strings.TrimSpace(part))
		}
	case "decreases":
		e, err := ParseExpr(rest)
		if err != nil {
			return err
		}
		c.Decreases = e
	case "loop":
		f := strings.SplitN(rest, " ", 3)
		if len(f) < 3 {
			return fmt.Errorf("bad loop clause")
		}
		n, err := strconv.Atoi(f[0])
		if err != nil {
			return err
		}
		ls := c.Loops[n]
		if ls == nil {
			ls = &LoopSpec{}
			c.Loops[n] = ls
		}
		switch f[1] {
		case "invariant":
			tags, body := parseTags(f[2])
			e, err := ParseExpr(body)
			if err != nil {
				return err
			}
			ls.Inv = append(ls.Inv, &Clause{Tags: tags, E: e, Text: body})
		case "decreases":
			e, err := ParseExpr(f[2])
			if err != nil {
				return err
			}
			ls.Dec = e
		case "uses":
			e, err := ParseExpr(f[2])
			if err != nil {
				return err
			}
			ls.Uses = append(ls.Uses, e)
		case "let":
			// loop N let x := expr, ... : ghost snapshot of expr at the loop head of the current iteration
			for _, part := range splitTop(f[2], ',') {
				i := strings.Index(part, ":=")
				if i < 0 {
					return fmt.Errorf("bad loop let %q", part)
				}
				e, err := ParseExpr(strings.TrimSpace(part[i+2:]))
				if err != nil {
					return err
				}
				ls.Lets = append(ls.Lets, LetDef{Name: strings.TrimSpace(part[:i]), E: e})
			}
		case "step":
			// loop N step assert expr : checkpoint at the back edge, in terms of the state after the body
			rest2 := strings.TrimSpace(f[2])
			if !strings.HasPrefix(rest2, "assert ") {
				return fmt.Errorf("expected: loop N step assert expr")
			}
			tags, body := parseTags(strings.TrimSpace(strings.TrimPrefix(rest2, "assert ")))
			e, err := ParseExpr(body)
			if err != nil {
				return err
			}
			ls.StepAsserts = append(ls.StepAsserts, &Clause{Tags: tags, E: e, Text: body})
		case "apply":
			// loop N apply LEMMA(args) [when cond]
			body := f[2]
			var when *Expr
			if k := strings.LastIndex(body, " when "); k >= 0 {
				w, err := ParseExpr(strings.TrimSpace(body[k+6:]))
				if err != nil {
					return err
				}
				when = w
				body = body[:k]
			}
			ls.ApplyWhen = append(ls.ApplyWhen, when)
			e, err := ParseExpr(body)
			if err != nil {
				return err
			}
			if e.Kind != "call" {
				return fmt.Errorf("loop apply expects LEMMA(args)")
			}
			ls.Applies = append(ls.Applies, e)
		case "progress":
			// loop N progress expr : every iteration strictly increases expr (input is consumed) -- C06 trip bound
			e, err := ParseExpr(f[2])
			if err != nil {
				return err
			}
			ls.Progress = e
		case "exit-uses":
			e, err := ParseExpr(f[2])
			if err != nil {
				return err
			}
			ls.ExitUses = append(ls.ExitUses, e)
		case "exit":
			// loop N exit assert expr : loop postcondition, checked where the loop is left and then assumed
			body := strings.TrimSpace(strings.TrimPrefix(f[2], "assert"))
			tags, body := parseTags(body)
			e, err := ParseExpr(body)
			if err != nil {
				return err
			}
			ls.Exit = append(ls.Exit, &Clause{Tags: tags, E: e, Text: body})
		case "modifies":
			for _, part := range splitTop(f[2], ',') {
				ls.Mods = append(ls.Mods, strings.TrimSpace(part))
			}
		default:
			return fmt.Errorf("unknown loop clause %q", f[1])
		}
	default:
		return fmt.Errorf("unknown clause keyword %q", word)
	}
	return nil
}

// splitTop splits on sep outside parentheses/brackets.
func splitTop(s string, sep byte) []string {
	var out []string
	depth := 0
	last := 0
	for i := 0; i < len(s); i++ {
		switch s[i] {
		case '(', '[':
			depth++
		case ')', ']':
			depth--
		default:
			if s[i] == sep && depth == 0 {
				out = append(out, s[last:i])
				last = i + 1
			}
		}
	}
	out = append(out, s[last:])
	return out
}

func parseSpecFunc(rest string, ghost bool) (*SpecFunc, error) {
	// name(a T, b T) R = expr     |   name(a T) R      (uninterpreted)
	i := strings.Index(rest, "(")
	if i < 0 {
		return nil, fmt.Errorf("bad spec")
	}
	sf := &SpecFunc{Name: strings.TrimSpace(rest[:i])}
	j := matchParen(rest, i)
	if j < 0 {
		return nil, fmt.Errorf("bad spec parens")
	}
	params := strings.TrimSpace(rest[i+1 : j])
	if params != "" {
		for _, p := range strings.Split(params, ",") {
			f := strings.Fields(p)
			if len(f) != 2 {
				return nil, fmt.Errorf("bad spec param %q", p)
			}
			sf.Params = append(sf.Params, f[0])
			sf.PTypes = append(sf.PTypes, f[1])
		}
	}
	tail := strings.TrimSpace(rest[j+1:])
	k := strings.Index(tail, "=")
	if k < 0 {
		sf.Ret = strings.TrimSpace(tail)
		if strings.HasSuffix(sf.Ret, " reads M") {
			sf.Ret = strings.TrimSpace(strings.TrimSuffix(sf.Ret, " reads M"))
			sf.ReadsM = true
		}
		sf.Uninterp = true
		return sf, nil
	}
	sf.Ret = strings.TrimSpace(tail[:k])
	e, err := ParseExpr(strings.TrimSpace(tail[k+1:]))
	if err != nil {
		return nil, err
	}
	sf.Body = e
	return sf, nil
}

func matchParen(s string, i int) int {
	d := 0
	for j := i; j < len(s); j++ {
		switch s[j] {
		case '(':
			d++
		case ')':
			d--
			if d == 0 {
				return j
			}
		}
	}
	return -1
}

// LoadRepoContracts reads //@ lines from contracts_verif.go of a package directory.
func (sp *Specs) LoadRepoContracts(dir, pkgPath string) error {
	files, _ := filepath.Glob(filepath.Join(dir, "contracts*_verif.go"))
	for _, f := range files {
		b, err := os.ReadFile(f)
		if err != nil {
			return err
		}
		var lines []string
		for _, l := range strings.Split(string(b), "\n") {
			t := strings.TrimSpace(l)
			if strings.HasPrefix(t, "//@") {
				lines = append(lines, strings.TrimPrefix(t, "//@"))
			} else {
				lines = append(lines, "")
			}
		}
		if err := sp.LoadSpecLines(lines, pkgPath, f, false); err != nil {
			return err
		}
	}
	return nil
}

func (sp *Specs) LoadSpecFile(path string, external bool) error {
	b, err := os.ReadFile(path)
	if err != nil {
		return err
	}
	return sp.LoadSpecLines(strings.Split(string(b), "\n"), "", path, external)
}
