package main

// Engine: program loading, function tables, obligations.

import (
	"fmt"
	"go/token"
	"go/types"
	"hash/fnv"
	"os"
	"path/filepath"
	"sort"
	"strings"

	"golang.org/x/tools/go/packages"
	"golang.org/x/tools/go/ssa"
	"golang.org/x/tools/go/ssa/ssautil"
)

type Obligation struct {
	Name   string
	Func   string
	Kind   string // panic, pre, post, inv-entry, inv-step, dec, frame, lemma, cover, ...
	Tags   []string
	Hyps   []*Term
	Goal   *Term
	Pos    token.Position
	Text   string
	Cover  bool // satisfiable-expected query (vacuity guard): Goal must be SAT together with Hyps
	Result *SolveResult
	Inputs []leaf // symbolic inputs for replay (name -> term)
	root   *root
}

type Engine struct {
	tb         *TB
	prog       *ssa.Program
	fset       *token.FileSet
	pkgs       []*packages.Package
	ssaPkgs    map[string]*ssa.Package
	specs      *Specs
	sizes      types.Sizes
	funcs      map[string]*ssa.Function // by String()
	initHeap   map[string]*Term
	repoDir    string
	repoPkgs   map[string]bool // package paths inside the repo module
	typeTags   map[string]*Term
	tagNames   map[string]string
	axioms     []*Term
	usedExt    map[string]bool // external contracts used (trusted base)
	havocked   map[string]bool // callees havocked without contract
	notes      map[string]bool
	wantPanics bool
	usedAxioms map[string]bool
	attrIndex  map[string]*TypeAttr
	attrTypes  map[string]types.Type
	gaddrs     map[*Term]bool
	aliases    map[string]map[string]string // function -> contract variable name -> current source name (pure renames)
	instCache  map[[2]*Term]*Term           // (quantifier, instance term) -> instantiated body, shared by all obligations
}

func NewEngine(repoDir string, specDir string) (*Engine, error) {
	e := &Engine{tb: NewTB(), specs: NewSpecs(), funcs: map[string]*ssa.Function{}, initHeap: map[string]*Term{},
		repoDir: repoDir, ssaPkgs: map[string]*ssa.Package{}, repoPkgs: map[string]bool{}, typeTags: map[string]*Term{},
		tagNames: map[string]string{}, usedAxioms: map[string]bool{}, usedExt: map[string]bool{}, havocked: map[string]bool{}, notes: map[string]bool{}}
	e.sizes = types.SizesFor("gc", "amd64")
	env := append(os.Environ(), "GOFLAGS=-mod=mod", "GOPROXY=off")
	cfg := &packages.Config{Mode: packages.LoadAllSyntax | packages.NeedModule, Dir: repoDir, BuildFlags: []string{"-tags=verif"}, Env: env}
	pkgs, err := packages.Load(cfg, "./...", "encoding/binary", "io")
	if err != nil {
		return nil, err
	}
	for _, p := range pkgs {
		for _, er := range p.Errors {
			return nil, fmt.Errorf("package %s: %v", p.PkgPath, er)
		}
	}
	e.pkgs = pkgs
	prog, spkgs := ssautil.AllPackages(pkgs, ssa.InstantiateGenerics|ssa.GlobalDebug)
	prog.Build()
	e.prog = prog
	e.fset = prog.Fset
	for i, p := range pkgs {
		if spkgs[i] == nil {
			continue
		}
		if p.Module != nil && p.Module.Main {
			e.repoPkgs[p.PkgPath] = true
		}
	}
	for _, sp := range prog.AllPackages() {
		e.ssaPkgs[sp.Pkg.Path()] = sp
	}
	for fn := range ssautil.AllFunctions(prog) {
		e.funcs[fn.String()] = fn
	}
	// contracts from the repo (comment-only files under build tag verif)
	for _, p := range pkgs {
		if !e.repoPkgs[p.PkgPath] {
			continue
		}
		dir := repoDir
		if len(p.GoFiles) > 0 {
			dir = filepath.Dir(p.GoFiles[0])
		}
		if err := e.specs.LoadRepoContracts(dir, p.PkgPath); err != nil {
			return nil, err
		}
	}
	e.loadAliases(specDir)
	files, _ := filepath.Glob(filepath.Join(specDir, "*.spec"))
	sort.Strings(files)
	for _, f := range files {
		ext := strings.Contains(filepath.Base(f), "external")
		if err := e.specs.LoadSpecFile(f, ext); err != nil {
			return nil, err
		}
	}
	return e, nil
}

// lookupFunc finds an SSA function by contract key (package-relative or fully qualified),
// forcing instantiation of generic methods if needed.
func (e *Engine) lookupFunc(pkg, key string) *ssa.Function {
	if pkg == "" {
		if fn, ok := e.funcs[key]; ok {
			return fn
		}
		return nil
	}
	sp := e.ssaPkgs[pkg]
	if sp == nil {
		return nil
	}
	if all := e.lookupFuncs(pkg, key); len(all) > 0 {
		return all[0]
	}
	// try forcing an instantiation: key like (IntCodec[int16]).Read
	if fn := e.forceInstance(sp, key); fn != nil {
		e.funcs[fn.String()] = fn
		return fn
	}
	if fn := e.promotedMethod(sp, key); fn != nil {
		return fn
	}
	return nil
}

// promotedMethod resolves "(T).M" / "(*T).M" when T has no method M of its own any more but an embedded field promotes
// one (e.g. after a method that shadowed the embedded type's method was deleted): the function under contract is then the
// synthetic wrapper go/ssa builds for the promoted method, and it is verified against T's contract.
func (e *Engine) promotedMethod(sp *ssa.Package, key string) *ssa.Function {
	if !strings.HasPrefix(key, "(") {
		return nil
	}
	close := strings.Index(key, ").")
	if close < 0 {
		return nil
	}
	recv := key[1:close]
	meth := key[close+2:]
	ptr := strings.HasPrefix(recv, "*")
	recv = strings.TrimPrefix(recv, "*")
	if strings.Contains(recv, "[") {
		return nil
	}
	obj := sp.Pkg.Scope().Lookup(recv)
	if obj == nil {
		return nil
	}
	var T types.Type = obj.Type()
	if ptr {
		T = types.NewPointer(T)
	}
	sel := types.NewMethodSet(T).Lookup(sp.Pkg, meth)
	if sel == nil || len(sel.Index()) < 2 {
		return nil
	}
	return e.prog.MethodValue(sel)
}

func (e *Engine) relName(fn *ssa.Function) string {
	var from *types.Package
	if fn.Pkg != nil {
		from = fn.Pkg.Pkg
	} else if fn.Origin() != nil && fn.Origin().Pkg != nil {
		from = fn.Origin().Pkg.Pkg
	}
	s := fn.RelString(from)
	if len(fn.TypeArgs()) > 0 && strings.HasSuffix(s, "]") {
		// instantiated generic: drop the trailing type-argument list of the method/function name
		depth := 0
		for i := len(s) - 1; i >= 0; i-- {
			if s[i] == ']' {
				depth++
			} else if s[i] == '[' {
				depth--
				if depth == 0 {
					// keep it if it belongs to the receiver type, i.e. is followed by ")."
					if !strings.HasPrefix(s[i:], "[") || strings.Contains(s[i:], ").") {
						break
					}
					s = s[:i]
					break
				}
			}
		}
	}
	return s
}

func (e *Engine) forceInstance(sp *ssa.Package, key string) *ssa.Function {
	// parse "(X[targs]).M" or "(*X[targs]).M"
	if !strings.HasPrefix(key, "(") {
		return nil
	}
	close := strings.Index(key, ").")
	if close < 0 {
		return nil
	}
	recv := key[1:close]
	meth := key[close+2:]
	ptr := strings.HasPrefix(recv, "*")
	recv = strings.TrimPrefix(recv, "*")
	lb := strings.Index(recv, "[")
	if lb < 0 {
		return nil
	}
	name := recv[:lb]
	targStr := strings.TrimSuffix(recv[lb+1:], "]")
	obj := sp.Pkg.Scope().Lookup(name)
	if obj == nil {
		return nil
	}
	named, ok := obj.Type().(*types.Named)
	if !ok {
		return nil
	}
	// generic origin method, e.g. (*Encoder[T]).Flush: type-parameter names instead of type arguments
	if tps := named.TypeParams(); tps != nil && tps.Len() > 0 {
		allParams := true
		parts := strings.Split(targStr, ",")
		if len(parts) == tps.Len() {
			for i, ts := range parts {
				if strings.TrimSpace(ts) != tps.At(i).Obj().Name() {
					allParams = false
				}
			}
		} else {
			allParams = false
		}
		if allParams {
			for i := 0; i < named.NumMethods(); i++ {
				if named.Method(i).Name() == meth {
					if fn := e.prog.FuncValue(named.Method(i)); fn != nil {
						return fn
					}
				}
			}
			return nil
		}
	}
	var targs []types.Type
	for _, ts := range strings.Split(targStr, ",") {
		ts = strings.TrimSpace(ts)
		var tt types.Type
		for _, b := range types.Typ {
			if b.Name() == ts {
				tt = b
			}
		}
		if tt == nil {
			if o := sp.Pkg.Scope().Lookup(ts); o != nil {
				tt = o.Type()
			}
		}
		if tt == nil {
			return nil
		}
		targs = append(targs, tt)
	}
	inst, err := types.Instantiate(types.NewContext(), named, targs, false)
	if err != nil {
		return nil
	}
	var rt types.Type = inst
	if ptr {
		rt = types.NewPointer(inst)
	}
	ms := e.prog.MethodSets.MethodSet(rt)
	for i := 0; i < ms.Len(); i++ {
		if ms.At(i).Obj().Name() == meth {
			fn := e.prog.MethodValue(ms.At(i))
			if fn != nil && fn.Synthetic != "" && strings.Contains(fn.Synthetic, "wrapper") && !ptr {
				return fn
			}
			return fn
		}
	}
	return nil
}

// contractFor returns the contract of a function, if any.
func (e *Engine) contractFor(fn *ssa.Function) *Contract {
	if fn == nil {
		return nil
	}
	if c, ok := e.specs.Contracts[fn.String()]; ok {
		return c
	}
	var pkg string
	if fn.Pkg != nil {
		pkg = fn.Pkg.Pkg.Path()
	} else if fn.Origin() != nil && fn.Origin().Pkg != nil {
		pkg = fn.Origin().Pkg.Pkg.Path()
	}
	if c, ok := e.specs.Contracts[pkg+"::"+e.relName(fn)]; ok {
		return c
	}
	// an instance of a generic function of another package (reflect.TypeFor[T]): the contract is keyed without type arguments
	if len(fn.TypeArgs()) > 0 {
		if c, ok := e.specs.Contracts[pkg+"."+e.relName(fn)]; ok {
			return c
		}
	}
	return nil
}

func (e *Engine) inRepo(fn *ssa.Function) bool {
	var pkg *ssa.Package = fn.Pkg
	if pkg == nil && fn.Origin() != nil {
		pkg = fn.Origin().Pkg
	}
	return pkg != nil && e.repoPkgs[pkg.Pkg.Path()]
}

// typeTag returns the constant tag term for a concrete dynamic type.
func (e *Engine) typeTag(t types.Type) *Term {
	k := typeKey(t)
	if x, ok := e.typeTags[k]; ok {
		return x
	}
	h := fnv.New64a()
	h.Write([]byte(k))
	v := h.Sum64() | 1<<40 // never zero
	v &= (1 << 62) - 1
	x := e.tb.BVU(64, v)
	e.typeTags[k] = x
	e.tagNames[x.Val.String()] = k
	return x
}

// typeArgTag is the type tag of a type argument: a constant for a concrete type, an uninterpreted constant for a type
// parameter of the generic function under verification.
func (e *Engine) typeArgTag(t types.Type) *Term {
	if tp, ok := types.Unalias(t).(*types.TypeParam); ok {
		return e.tb.App("tptag:"+tp.Obj().Name(), BV64)
	}
	return e.typeTag(t)
}

func (e *Engine) pos(p token.Pos) token.Position {
	if !p.IsValid() {
		return token.Position{}
	}
	return e.fset.Position(p)
}

// ifaceParamNames returns the declared parameter names of interface method key "pkgpath.Iface.Method".
func (e *Engine) ifaceParamNames(key string) []string {
	i := strings.LastIndex(key, ".")
	meth := key[i+1:]
	rest := key[:i]
	j := strings.LastIndex(rest, ".")
	pkg, iname := rest[:j], rest[j+1:]
	sp := e.ssaPkgs[pkg]
	if sp == nil {
		panic(cerr("unknown package %s in %s", pkg, key))
	}
	obj := sp.Pkg.Scope().Lookup(iname)
	if obj == nil {
		panic(cerr("unknown interface %s", key))
	}
	it, ok := obj.Type().Underlying().(*types.Interface)
	if !ok {
		panic(cerr("%s is not an interface", iname))
	}
	for k := 0; k < it.NumMethods(); k++ {
		if it.Method(k).Name() == meth {
			sig := it.Method(k).Type().(*types.Signature)
			var out []string
			for a := 0; a < sig.Params().Len(); a++ {
				n := sig.Params().At(a).Name()
				if n == "" || n == "_" {
					n = fmt.Sprintf("a%d", a)
				}
				out = append(out, n)
			}
			return out
		}
	}
	panic(cerr("no method %s", key))
}

// lookupFuncs returns every (non-generic-origin first) function of package pkg whose package-relative name is key;
// an instantiated generic function yields one entry per instantiation.
func (e *Engine) lookupFuncs(pkg, key string) []*ssa.Function {
	sp := e.ssaPkgs[pkg]
	if sp == nil {
		return nil
	}
	var inst, generic []*ssa.Function
	for _, fn := range e.funcs {
		if fn.Pkg == sp || (fn.Pkg == nil && fn.Origin() != nil && fn.Origin().Pkg == sp) {
			if e.relName(fn) == key {
				if fn.TypeParams().Len() > 0 && len(fn.TypeArgs()) == 0 {
					generic = append(generic, fn)
				} else {
					inst = append(inst, fn)
				}
			}
		}
	}
	sort.Slice(inst, func(i, j int) bool { return inst[i].String() < inst[j].String() })
	if len(inst) > 0 {
		return inst
	}
	return generic
}
