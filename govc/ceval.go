package main

// Evaluation of contract expressions into terms.

import (
	"fmt"
	"go/types"
	"math/big"
	"sort"
	"strings"

	"golang.org/x/tools/go/ssa"
)

type CV struct {
	V     Val
	T     types.Type
	Const *big.Int // untyped integer constant
	Nil   bool
	// untyped conditional constant: Cond ? Const : ConstB
	Cond   *Term
	ConstB *big.Int
}

type Env struct {
	r           *FnRun
	vars        map[string]CV
	cur         *State
	old         *State
	parent      *Env
	phiOverride map[*ssa.Phi]Val
	inLoop      bool
	blockPhis   map[string]*ssa.Phi
	preferNames bool
	pkg         *types.Package
	ghostDepth  int
}

func (r *FnRun) newEnv(cur, old *State) *Env {
	var pkg *types.Package
	if r.fn == nil {
	} else if r.fn.Pkg != nil {
		pkg = r.fn.Pkg.Pkg
	} else if r.fn.Origin() != nil && r.fn.Origin().Pkg != nil {
		pkg = r.fn.Origin().Pkg.Pkg
	}
	return &Env{r: r, vars: map[string]CV{}, cur: cur, old: old, pkg: pkg}
}

func (env *Env) child() *Env {
	return &Env{r: env.r, vars: map[string]CV{}, cur: env.cur, old: env.old, parent: env, phiOverride: env.phiOverride, inLoop: env.inLoop, blockPhis: env.blockPhis, preferNames: env.preferNames, pkg: env.pkg}
}

func (env *Env) withStates(cur, old *State) *Env {
	n := *env
	n.cur, n.old = cur, old
	return &n
}

func (env *Env) lookup(name string) (CV, bool) {
	for e := env; e != nil; e = e.parent {
		if v, ok := e.vars[name]; ok {
			return v, true
		}
	}
	return CV{}, false
}

func cerr(format string, args ...interface{}) error {
	return fmt.Errorf("contract: "+format, args...)
}

var specTypes = map[string]types.Type{
	"int": types.Typ[types.Int], "int64": types.Typ[types.Int64], "int32": types.Typ[types.Int32], "int16": types.Typ[types.Int16], "int8": types.Typ[types.Int8],
	"uint": types.Typ[types.Uint], "uint64": types.Typ[types.Uint64], "uint32": types.Typ[types.Uint32], "uint16": types.Typ[types.Uint16], "uint8": types.Typ[types.Uint8],
	"byte": types.Typ[types.Uint8], "uintptr": types.Typ[types.Uintptr], "bool": types.Typ[types.Bool], "ptr": types.Typ[types.UnsafePointer],
	"string": types.Typ[types.String], "bytes": types.NewSlice(types.Typ[types.Uint8]), "rune": types.Typ[types.Int32],
	"float32": types.Typ[types.Float32], "float64": types.Typ[types.Float64],
	"iface": types.NewInterfaceType(nil, nil),
}

func (env *Env) tb() *TB { return env.r.e.tb }

// EvalBool evaluates a clause to a Bool term.
func (env *Env) EvalBool(e *Expr) *Term {
	cv := env.Eval(e)
	s, ok := cv.V.(Scalar)
	if !ok || s.T.Sort != BoolSort {
		panic(cerr("expected boolean in %q", e.String()))
	}
	return s.T
}

func (env *Env) coerceConst(c CV, to types.Type) CV {
	if c.Const == nil {
		return c
	}
	if to == nil {
		to = types.Typ[types.Int]
	}
	if isBool(to) {
		panic(cerr("constant used as bool"))
	}
	w, _, ok := basicInfo(to)
	if !ok {
		if isPointerLike(to) {
			w = 64
		} else {
			panic(cerr("cannot use constant as %s", to))
		}
	}
	if c.Cond != nil {
		return CV{V: Scalar{env.tb().Ite(c.Cond, env.tb().BVC(w, c.Const), env.tb().BVC(w, c.ConstB))}, T: to}
	}
	return CV{V: Scalar{env.tb().BVC(w, c.Const)}, T: to}
}

func (env *Env) Eval(e *Expr) CV {
	tb := env.tb()
	r := env.r
	switch e.Kind {
	case "int":
		return CV{Const: e.Lit}
	case "bool":
		return CV{V: Scalar{tb.BoolC(e.Name == "true")}, T: types.Typ[types.Bool]}
	case "str":
		return CV{V: r.constString(e.Str), T: types.Typ[types.String]}
	case "ident":
		return env.evalIdent(e.Name)
	case "unary":
		x := env.Eval(e.Args[0])
		switch e.Op {
		case "!":
			return CV{V: Scalar{tb.Not(x.V.(Scalar).T)}, T: types.Typ[types.Bool]}
		case "-":
			if x.Const != nil {
				return CV{Const: new(big.Int).Neg(x.Const)}
			}
			return CV{V: Scalar{tb.Neg(r.scalar(x.V))}, T: x.T}
		case "^":
			if x.Const != nil {
				return CV{Const: new(big.Int).Not(x.Const)}
			}
			return CV{V: Scalar{tb.BNot(r.scalar(x.V))}, T: x.T}
		}
	case "binary":
		return env.evalBinary(e)
	case "cond":
		c := env.EvalBool(e.Args[0])
		a, b := env.Eval(e.Args[1]), env.Eval(e.Args[2])
		if a.Const != nil && b.Const != nil && a.Cond == nil && b.Cond == nil {
			return CV{Const: a.Const, Cond: c, ConstB: b.Const}
		}
		a, b = env.unify(a, b)
		return CV{V: r.e.iteVal(c, a.V, b.V), T: a.T}
	case "forall", "exists":
		ce := env.child()
		var bound []*Term
		for i, n := range e.BVars {
			t, ok := specTypes[e.BTypes[i]]
			if !ok {
				panic(cerr("unknown type %q for bound variable", e.BTypes[i]))
			}
			if e.BTypes[i] == "iface" {
				// an interface value is a (type tag, data word) pair
				tg, dt := tb.BoundVar(n+".tag", BV64), tb.BoundVar(n+".data", BV64)
				bound = append(bound, tg, dt)
				ce.vars[n] = CV{V: IfaceV{Tag: tg, Data: dt}, T: t}
				continue
			}
			w, _, _ := basicInfo(t)
			bv := tb.BoundVar(n, BV(w))
			bound = append(bound, bv)
			ce.vars[n] = CV{V: Scalar{bv}, T: t}
		}
		body := ce.EvalBool(e.Args[0])
		if e.Kind == "forall" {
			return CV{V: Scalar{tb.Forall(bound, body)}, T: types.Typ[types.Bool]}
		}
		return CV{V: Scalar{tb.Exists(bound, body)}, T: types.Typ[types.Bool]}
	case "call":
		return env.evalCall(e)
	case "index":
		x := env.Eval(e.Args[0])
		i := env.coerceConst(env.Eval(e.Args[1]), types.Typ[types.Int])
		idx := r.toInt64(r.scalar(i.V), i.T)
		switch v := x.V.(type) {
		case SliceV:
			return CV{V: Scalar{r.byteAt(env.cur, v, idx)}, T: types.Typ[types.Uint8]}
		case ArrV:
			return CV{V: Scalar{tb.Select(v.Arr, idx)}, T: types.Typ[types.Uint8]}
		case PSlice:
			sz := r.e.sizeof(v.Elem)
			addr := tb.Add(v.Ptr, tb.Mul(idx, tb.BVI(64, sz)))
			if _, isS := v.Elem.Underlying().(*types.Struct); isS {
				return CV{V: PtrV{Kind: PObj, Addr: addr, T: v.Elem}, T: types.NewPointer(v.Elem)}
			}
			return CV{V: r.objLoad(env.cur, addr, v.Elem), T: v.Elem}
		case PtrV:
			if v.Kind == PByteObj {
				return CV{V: Scalar{tb.Select(tb.Select(env.cur.BH, v.Base), idx)}, T: types.Typ[types.Uint8]}
			}
		}
		panic(cerr("cannot index %T in %q", x.V, e.String()))
	case "field":
		// package-qualified global?
		if id := e.Args[0]; id.Kind == "ident" {
			if _, ok := env.lookup(id.Name); !ok && env.r.names[id.Name] == nil {
				if g := env.r.e.findGlobal(env.pkg, id.Name, e.Name); g != nil {
					t := g.Type().(*types.Pointer).Elem()
					return CV{V: r.e.globalVal(g, nil, t), T: t}
				}
			}
		}
		x := env.Eval(e.Args[0])
		return env.evalField(x, e.Name, e)
	}
	panic(cerr("cannot evaluate %q", e.String()))
}

func (e *Engine) findGlobal(from *types.Package, pkgName, name string) *ssa.Global {
	if sp, ok := e.ssaPkgs[pkgName]; ok {
		if g, ok := sp.Members[name].(*ssa.Global); ok {
			return g
		}
	}
	var paths []string
	for path, sp := range e.ssaPkgs {
		if sp.Pkg.Name() == pkgName {
			paths = append(paths, path)
		}
	}
	sort.Strings(paths)
	for _, path := range paths {
		if g, ok := e.ssaPkgs[path].Members[name].(*ssa.Global); ok {
			return g
		}
	}
	return nil
}

func (env *Env) evalIdent(name string) CV {
	r := env.r
	tb := env.tb()
	// a source variable that was renamed (and nothing else changed in the function's declarations): spec/locals.json
	if fn := r.fn; fn != nil && r.e.aliases != nil {
		var key string
		if o, ok := fn.Object().(*types.Func); ok && o != nil {
			key = o.FullName()
		} else if fn.Origin() != nil {
			if o, ok := fn.Origin().Object().(*types.Func); ok && o != nil {
				key = o.FullName()
			}
		}
		if m := r.e.aliases[key]; m != nil {
			if a, ok := m[name]; ok {
				if _, bound := env.lookup(name); !bound && r.names[name] == nil && r.loopPhis[name] == nil {
					name = a
				}
			}
		}
	}
	if env.blockPhis != nil {
		if phi, ok := env.blockPhis[name]; ok {
			return CV{V: r.val(phi), T: phi.Type()}
		}
	}
	// variables of enclosing loops (header phis) shadow parameters of the same name
	if env.phiOverride != nil || env.inLoop {
		if phi, ok := r.loopPhis[name]; ok {
			if ov, ok := env.phiOverride[phi]; ok {
				return CV{V: ov, T: phi.Type()}
			}
			if _, done := r.vals[phi]; done {
				return CV{V: r.val(phi), T: phi.Type()}
			}
		}
	}
	if env.preferNames {
		if sv, ok := r.names[name]; ok {
			if _, done := r.vals[sv]; done {
				return CV{V: r.val(sv), T: sv.Type()}
			}
		}
	}
	if v, ok := env.lookup(name); ok {
		return v
	}
	switch name {
	case "nil":
		return CV{Nil: true}
	case "MaxInt64":
		return CV{Const: new(big.Int).SetUint64(1<<63 - 1)}
	case "MaxUint64":
		return CV{V: Scalar{tb.BVU(64, ^uint64(0))}, T: types.Typ[types.Uint64]}
	}
	if strings.HasPrefix(name, "ev") {
		if k, ok := eventKinds[name[2:]]; ok {
			return CV{Const: big.NewInt(int64(k))}
		}
	}
	// source-level variable of the function under verification
	if sv, ok := r.names[name]; ok {
		if phi, isPhi := sv.(*ssa.Phi); isPhi && env.phiOverride != nil {
			if ov, ok := env.phiOverride[phi]; ok {
				return CV{V: ov, T: sv.Type()}
			}
		}
		return CV{V: r.val(sv), T: sv.Type()}
	}
	if sv, ok := r.names["&"+name]; ok {
		// address-taken local: current content
		p := r.ptr(sv)
		t := sv.Type().(*types.Pointer).Elem()
		return CV{V: r.load(env.cur, p, t), T: t}
	}
	// package-level global of the function's package
	if env.pkg != nil {
		if sp := r.e.ssaPkgs[env.pkg.Path()]; sp != nil {
			if g, ok := sp.Members[name].(*ssa.Global); ok {
				t := g.Type().(*types.Pointer).Elem()
				return CV{V: r.e.globalVal(g, nil, t), T: t}
			}
		}
	}
	// a specification written in another package of the repository (e.g. the time package's zone-cache invariant,
	// needed by a caller in package null): a package-level variable that is unique by name in the module
	var found *ssa.Global
	var paths []string
	for path := range r.e.repoPkgs {
		paths = append(paths, path)
	}
	sort.Strings(paths)
	for _, path := range paths {
		if sp := r.e.ssaPkgs[path]; sp != nil {
			if g, ok := sp.Members[name].(*ssa.Global); ok {
				if found != nil {
					found = nil
					break
				}
				found = g
			}
		}
	}
	if found != nil {
		t := found.Type().(*types.Pointer).Elem()
		return CV{V: r.e.globalVal(found, nil, t), T: t}
	}
	panic(cerr("unknown identifier %q in %s", name, r.fn))
}

func (env *Env) unify(a, b CV) (CV, CV) {
	if a.Const != nil && b.Const != nil {
		return env.coerceConst(a, types.Typ[types.Int]), env.coerceConst(b, types.Typ[types.Int])
	}
	if a.Const != nil {
		return env.coerceConst(a, b.T), b
	}
	if b.Const != nil {
		return a, env.coerceConst(b, a.T)
	}
	return a, b
}

func (env *Env) isNilTerm(x CV) *Term {
	tb := env.tb()
	z := tb.BVI(64, 0)
	switch v := x.V.(type) {
	case Scalar:
		return tb.Eq(v.T, tb.BVI(v.T.Sort.W, 0))
	case IfaceV:
		return tb.Eq(v.Tag, z)
	case SliceV:
		if v.Raw {
			return tb.Eq(v.Off, z)
		}
		return tb.Eq(v.Base, z)
	case PSlice:
		return tb.Eq(v.Ptr, z)
	case PtrV:
		return tb.Eq(env.r.e.ptrNum(v), z)
	}
	panic(cerr("nil comparison on %T", x.V))
}

func (env *Env) evalBinary(e *Expr) CV {
	tb := env.tb()
	r := env.r
	boolT := types.Typ[types.Bool]
	switch e.Op {
	case "==>":
		a := env.EvalBool(e.Args[0])
		b := env.EvalBool(e.Args[1])
		return CV{V: Scalar{tb.Implies(a, b)}, T: boolT}
	case "<==>":
		a := env.EvalBool(e.Args[0])
		b := env.EvalBool(e.Args[1])
		return CV{V: Scalar{tb.Eq(a, b)}, T: boolT}
	case "&&":
		return CV{V: Scalar{tb.And(env.EvalBool(e.Args[0]), env.EvalBool(e.Args[1]))}, T: boolT}
	case "||":
		return CV{V: Scalar{tb.Or(env.EvalBool(e.Args[0]), env.EvalBool(e.Args[1]))}, T: boolT}
	}
	a, b := env.Eval(e.Args[0]), env.Eval(e.Args[1])
	if e.Op == "==" || e.Op == "!=" {
		var eq *Term
		switch {
		case a.Nil && b.Nil:
			eq = tb.True()
		case b.Nil:
			eq = env.isNilTerm(a)
		case a.Nil:
			eq = env.isNilTerm(b)
		default:
			a, b = env.unify(a, b)
			sa, okA := a.V.(SliceV)
			sb, okB := b.V.(SliceV)
			if okA && okB && sa.Cap == nil && sb.Cap == nil && a.T != nil && isString(a.T) {
				// strings compare by content (Go semantics)
				eq = r.stringEq(env.cur, sa, sb)
			} else {
				eq = r.e.eqValLoose(a.V, b.V)
			}
		}
		if e.Op == "!=" {
			eq = tb.Not(eq)
		}
		return CV{V: Scalar{eq}, T: boolT}
	}
	if a.Cond != nil && (b.Const != nil || b.Nil) {
		a = env.coerceConst(a, types.Typ[types.Int])
	}
	if b.Cond != nil && a.Const != nil {
		b = env.coerceConst(b, types.Typ[types.Int])
	}
	if a.Const != nil && b.Const != nil {
		x, y := a.Const, b.Const
		z := new(big.Int)
		switch e.Op {
		case "+":
			return CV{Const: z.Add(x, y)}
		case "-":
			return CV{Const: z.Sub(x, y)}
		case "*":
			return CV{Const: z.Mul(x, y)}
		case "/":
			return CV{Const: z.Quo(x, y)}
		case "%":
			return CV{Const: z.Rem(x, y)}
		case "<<":
			return CV{Const: z.Lsh(x, uint(y.Int64()))}
		case ">>":
			return CV{Const: z.Rsh(x, uint(y.Int64()))}
		case "&":
			return CV{Const: z.And(x, y)}
		case "|":
			return CV{Const: z.Or(x, y)}
		case "^":
			return CV{Const: z.Xor(x, y)}
		case "<":
			return CV{V: Scalar{tb.BoolC(x.Cmp(y) < 0)}, T: boolT}
		case "<=":
			return CV{V: Scalar{tb.BoolC(x.Cmp(y) <= 0)}, T: boolT}
		case ">":
			return CV{V: Scalar{tb.BoolC(x.Cmp(y) > 0)}, T: boolT}
		case ">=":
			return CV{V: Scalar{tb.BoolC(x.Cmp(y) >= 0)}, T: boolT}
		}
	}
	if e.Op == "<<" || e.Op == ">>" {
		if a.Const != nil {
			a = env.coerceConst(a, types.Typ[types.Int])
		}
		b = env.coerceConst(b, types.Typ[types.Uint])
		x, y := r.scalar(a.V), r.scalar(b.V)
		if y.Sort.W < x.Sort.W {
			y = tb.ZExt(y, x.Sort.W)
		} else if y.Sort.W > x.Sort.W {
			big_ := tb.UGe(y, tb.BVI(y.Sort.W, int64(x.Sort.W)))
			y = tb.Ite(big_, tb.BVI(x.Sort.W, int64(x.Sort.W)), tb.Extract(x.Sort.W-1, 0, y))
		}
		_, signed, _ := basicInfo(a.T)
		if e.Op == "<<" {
			return CV{V: Scalar{tb.Shl(x, y)}, T: a.T}
		}
		if signed {
			return CV{V: Scalar{tb.AShr(x, y)}, T: a.T}
		}
		return CV{V: Scalar{tb.LShr(x, y)}, T: a.T}
	}
	a, b = env.unify(a, b)
	x, y := r.scalar(a.V), r.scalar(b.V)
	if x.Sort != y.Sort {
		panic(cerr("operand width mismatch in %q (%s vs %s)", e.String(), x.Sort, y.Sort))
	}
	_, signed, ok := basicInfo(a.T)
	if !ok {
		signed = false
	}
	if a.T != nil && b.T != nil {
		_, s2, ok2 := basicInfo(b.T)
		if ok && ok2 && s2 != signed {
			// mixed signedness: require explicit conversion except for == handled above
			panic(cerr("mixed signedness in %q (%s vs %s)", e.String(), a.T, b.T))
		}
	}
	switch e.Op {
	case "+":
		return CV{V: Scalar{tb.Add(x, y)}, T: a.T}
	case "-":
		return CV{V: Scalar{tb.Sub(x, y)}, T: a.T}
	case "*":
		if x.IsConst() || y.IsConst() || x.Sort.W != 64 {
			return CV{V: Scalar{tb.Mul(x, y)}, T: a.T}
		}
		return CV{V: Scalar{r.e.umul(x, y)}, T: a.T}
	case "/":
		if signed {
			return CV{V: Scalar{tb.SDiv(x, y)}, T: a.T}
		}
		return CV{V: Scalar{tb.UDiv(x, y)}, T: a.T}
	case "%":
		if signed {
			return CV{V: Scalar{tb.SRem(x, y)}, T: a.T}
		}
		return CV{V: Scalar{tb.URem(x, y)}, T: a.T}
	case "&":
		return CV{V: Scalar{tb.BAnd(x, y)}, T: a.T}
	case "|":
		return CV{V: Scalar{tb.BOr(x, y)}, T: a.T}
	case "^":
		return CV{V: Scalar{tb.BXor(x, y)}, T: a.T}
	case "&^":
		return CV{V: Scalar{tb.BAnd(x, tb.BNot(y))}, T: a.T}
	case "<":
		if signed {
			return CV{V: Scalar{tb.SLt(x, y)}, T: boolT}
		}
		return CV{V: Scalar{tb.ULt(x, y)}, T: boolT}
	case "<=":
		if signed {
			return CV{V: Scalar{tb.SLe(x, y)}, T: boolT}
		}
		return CV{V: Scalar{tb.ULe(x, y)}, T: boolT}
	case ">":
		if signed {
			return CV{V: Scalar{tb.SGt(x, y)}, T: boolT}
		}
		return CV{V: Scalar{tb.UGt(x, y)}, T: boolT}
	case ">=":
		if signed {
			return CV{V: Scalar{tb.SGe(x, y)}, T: boolT}
		}
		return CV{V: Scalar{tb.UGe(x, y)}, T: boolT}
	}
	panic(cerr("unknown operator %q", e.Op))
}

// eqValLoose: leafwise equality tolerant of pointer representation.
func (e *Engine) eqValLoose(a, b Val) *Term {
	if pa, ok := a.(PtrV); ok {
		if pb, ok2 := b.(PtrV); ok2 {
			return e.tb.Eq(e.ptrNum(pa), e.ptrNum(pb))
		}
		if sb, ok2 := b.(Scalar); ok2 {
			return e.tb.Eq(e.ptrNum(pa), sb.T)
		}
	}
	if sa, ok := a.(Scalar); ok {
		if pb, ok2 := b.(PtrV); ok2 {
			return e.tb.Eq(sa.T, e.ptrNum(pb))
		}
	}
	return e.eqVal(a, b)
}

func (env *Env) evalField(x CV, name string, e *Expr) CV {
	tb := env.tb()
	r := env.r
	u64 := types.Typ[types.Uint64]
	it := types.Typ[types.Int]
	// pseudo-fields
	switch v := x.V.(type) {
	case SliceV:
		switch name {
		case "base":
			return CV{V: Scalar{v.Base}, T: u64}
		case "off":
			return CV{V: Scalar{v.Off}, T: it}
		case "len":
			return CV{V: Scalar{v.Len}, T: it}
		case "cap":
			return CV{V: Scalar{v.Cap}, T: it}
		}
	case PSlice:
		switch name {
		case "ptr":
			return CV{V: Scalar{v.Ptr}, T: types.Typ[types.UnsafePointer]}
		case "len":
			return CV{V: Scalar{v.Len}, T: it}
		case "cap":
			return CV{V: Scalar{v.Cap}, T: it}
		}
	case IfaceV:
		switch name {
		case "tag":
			return CV{V: Scalar{v.Tag}, T: u64}
		case "data":
			return CV{V: Scalar{v.Data}, T: types.Typ[types.UnsafePointer]}
		}
	}
	if x.T == nil {
		panic(cerr("field %s of untyped value in %q", name, e.String()))
	}
	// struct value
	if su, ok := x.T.Underlying().(*types.Struct); ok {
		sv, ok := x.V.(StructV)
		if !ok {
			panic(cerr("field of non-struct value %T", x.V))
		}
		for i := 0; i < su.NumFields(); i++ {
			if su.Field(i).Name() == name {
				return CV{V: sv.Fields[i], T: su.Field(i).Type()}
			}
		}
		for i := 0; i < su.NumFields(); i++ {
			if su.Field(i).Embedded() {
				if _, ok := su.Field(i).Type().Underlying().(*types.Struct); ok {
					if hasField(su.Field(i).Type(), name) {
						return env.evalField(CV{V: sv.Fields[i], T: su.Field(i).Type()}, name, e)
					}
				}
			}
		}
		panic(cerr("no field %s in %s", name, x.T))
	}
	pt, ok := x.T.Underlying().(*types.Pointer)
	if !ok {
		panic(cerr("field %s of non-struct, non-pointer %s in %q", name, x.T, e.String()))
	}
	su, ok := pt.Elem().Underlying().(*types.Struct)
	if !ok {
		panic(cerr("field %s of pointer to non-struct %s", name, pt.Elem()))
	}
	base := r.asPtr(x.V, x.T)
	for i := 0; i < su.NumFields(); i++ {
		f := su.Field(i)
		if f.Name() != name {
			if f.Embedded() && hasField(f.Type(), name) {
				inner := env.fieldPtr(base, pt.Elem(), su, i)
				return env.evalField(CV{V: inner, T: types.NewPointer(f.Type())}, name, e)
			}
			continue
		}
		fp := env.fieldPtr(base, pt.Elem(), su, i)
		if _, isS := f.Type().Underlying().(*types.Struct); isS {
			return CV{V: fp, T: types.NewPointer(f.Type())}
		}
		if fp.Kind == PByteObj {
			// byte-array fields are denoted by their object (index, sub(), BH[...] and cowned() accept it)
			return CV{V: fp, T: types.NewPointer(f.Type())}
		}
		_ = tb
		return CV{V: r.load(env.cur, fp, f.Type()), T: f.Type()}
	}
	panic(cerr("no field %s in %s", name, pt.Elem()))
}

func hasField(t types.Type, name string) bool {
	su, ok := t.Underlying().(*types.Struct)
	if !ok {
		return false
	}
	for i := 0; i < su.NumFields(); i++ {
		if su.Field(i).Name() == name {
			return true
		}
	}
	return false
}

func (env *Env) fieldPtr(base PtrV, stt types.Type, su *types.Struct, idx int) PtrV {
	tb := env.tb()
	r := env.r
	ft := su.Field(idx).Type()
	off := r.e.sizes.Offsetsof(structFields(su))[idx]
	switch base.Kind {
	case PRaw:
		np := base
		np.Addr = tb.Add(base.Addr, tb.BVI(64, off))
		np.T = ft
		return np
	case PObj:
		if _, isS := ft.Underlying().(*types.Struct); isS {
			return PtrV{Kind: PObj, Addr: tb.Add(base.Addr, tb.BVI(64, off)), T: ft}
		}
		if n, isBA := isByteArray(ft); isBA {
			fb := tb.App("fobj:"+fieldKey(stt, idx), BV64, base.Addr)
			r.fobjFacts(fb, base.Addr)
			return PtrV{Kind: PByteObj, Base: fb, N: n, T: ft}
		}
		return PtrV{Kind: PField, Addr: base.Addr, ST: su, STN: structKey(stt), Idx: idx, T: ft}
	case PLocal:
		np := base
		np.Path = append(append([]int{}, base.Path...), idx)
		np.T = ft
		return np
	}
	panic(cerr("field pointer on pointer kind %d", base.Kind))
}

func (env *Env) conv(x CV, to types.Type) CV {
	tb := env.tb()
	if x.Const != nil {
		return env.coerceConst(x, to)
	}
	tw, _, ok := basicInfo(to)
	if !ok {
		panic(cerr("bad conversion target %s", to))
	}
	t := env.r.scalar(x.V)
	if t.Sort == BoolSort {
		return CV{V: Scalar{tb.Ite(t, tb.BVI(tw, 1), tb.BVI(tw, 0))}, T: to}
	}
	fw := t.Sort.W
	_, fs, fok := basicInfo(x.T)
	if x.T == nil || !fok {
		fs = false
	}
	switch {
	case tw <= fw:
		return CV{V: Scalar{tb.Extract(tw-1, 0, t)}, T: to}
	case fs:
		return CV{V: Scalar{tb.SExt(t, tw)}, T: to}
	default:
		return CV{V: Scalar{tb.ZExt(t, tw)}, T: to}
	}
}

func (env *Env) evalCall(e *Expr) CV {
	tb := env.tb()
	r := env.r
	name := e.Name
	it := types.Typ[types.Int]
	boolT := types.Typ[types.Bool]
	arg := func(i int) CV {
		if i >= len(e.Args) {
			panic(cerr("missing argument %d in %q", i, e.String()))
		}
		return env.Eval(e.Args[i])
	}
	argInt := func(i int) *Term {
		c := env.coerceConst(arg(i), it)
		return r.toInt64(r.scalar(c.V), c.T)
	}
	if t, ok := specTypes[name]; ok && len(e.Args) == 1 {
		if name == "ptr" || name == "uintptr" {
			x := arg(0)
			if x.Const != nil {
				return env.coerceConst(x, t)
			}
			return CV{V: Scalar{r.scalar(x.V)}, T: t}
		}
		if name == "string" || name == "bytes" {
			return CV{V: arg(0).V, T: t}
		}
		return env.conv(arg(0), t)
	}
	switch name {
	case "old":
		if env.old == nil {
			panic(cerr("old() not available here"))
		}
		res := env.withStates(env.old, env.old).Eval(e.Args[0])
		if sv, ok := res.V.(SliceV); ok && sv.Arr == nil {
			// a byte string denoted in the old state keeps its old content
			sv.Arr = r.sliceContent(env.old, sv)
			sv.Raw = false
			res.V = sv
		}
		return res
	case "len", "cap":
		x := arg(0)
		switch v := x.V.(type) {
		case SliceV:
			if name == "len" {
				return CV{V: Scalar{v.Len}, T: it}
			}
			return CV{V: Scalar{v.Cap}, T: it}
		case PSlice:
			if name == "len" {
				return CV{V: Scalar{v.Len}, T: it}
			}
			return CV{V: Scalar{v.Cap}, T: it}
		case ArrV:
			return CV{V: Scalar{tb.BVI(64, v.N)}, T: it}
		}
		panic(cerr("len of %T", x.V))
	case "base":
		return CV{V: Scalar{arg(0).V.(SliceV).Base}, T: types.Typ[types.Uint64]}
	case "off":
		return CV{V: Scalar{arg(0).V.(SliceV).Off}, T: it}
	case "cast":
		// cast("*T", x): the pointer x viewed as a pointer of the named type (e.g. the data word of a Codec whose dynamic
		// type is known from the context)
		if e.Args[0].Kind != "str" {
			panic(cerr("cast expects a type name string"))
		}
		T := r.e.parseTypeName(env.pkg, e.Args[0].Str)
		if T == nil {
			panic(cerr("cast: unknown type %q", e.Args[0].Str))
		}
		return CV{V: Scalar{r.scalar(arg(1).V)}, T: T}
	case "addr":
		// addr(x): the address of the address-taken local variable x of the function under verification
		if e.Args[0].Kind != "ident" {
			panic(cerr("addr expects a local variable"))
		}
		sv, ok := r.names["&"+e.Args[0].Name]
		if !ok {
			panic(cerr("addr: %s is not an address-taken local", e.Args[0].Name))
		}
		return CV{V: r.val(sv), T: sv.Type()}
	case "strkey":
		// strkey(s): the identity under which the string s is a map key (a function of its content)
		return CV{V: Scalar{r.mapKeyOf(env.cur, arg(0).V, types.Typ[types.String])}, T: types.Typ[types.Uint64]}
	case "mem8", "mem16", "mem32", "mem64":
		n := map[string]int{"mem8": 1, "mem16": 2, "mem32": 4, "mem64": 8}[name]
		a := r.scalar(arg(0).V)
		types_ := map[int]types.Type{1: types.Typ[types.Uint8], 2: types.Typ[types.Uint16], 4: types.Typ[types.Uint32], 8: types.Typ[types.Uint64]}
		return CV{V: Scalar{r.rawLoadBV(env.cur.M, a, n)}, T: types_[n]}
	case "memint":
		// memint(p, n): the n-byte little-endian two's-complement integer at raw address p, sign-extended to int64
		a := r.scalar(arg(0).V)
		nb := env.Eval(e.Args[1])
		if nb.Const == nil {
			panic(cerr("memint needs a constant size"))
		}
		v := r.rawLoadBV(env.cur.M, a, int(nb.Const.Int64()))
		return CV{V: Scalar{tb.SExt(v, 64)}, T: types.Typ[types.Int64]}
	case "memuint":
		a := r.scalar(arg(0).V)
		nb := env.Eval(e.Args[1])
		if nb.Const == nil {
			panic(cerr("memuint needs a constant size"))
		}
		v := r.rawLoadBV(env.cur.M, a, int(nb.Const.Int64()))
		return CV{V: Scalar{tb.ZExt(v, 64)}, T: types.Typ[types.Uint64]}
	case "memload":
		// memload(p, "pkg.Type"): the value of that Go type stored at raw address p
		a := r.scalar(arg(0).V)
		t := r.e.parseTypeName(env.pkg, e.Args[1].Str)
		if t == nil {
			panic(cerr("memload: unknown type %q", e.Args[1].Str))
		}
		return CV{V: r.rawLoad(env.cur, PtrV{Kind: PRaw, Addr: a, T: t}, t), T: t}
	case "memstr", "membytes":
		// slice/string header stored at raw address
		a := r.scalar(arg(0).V)
		p := PtrV{Kind: PRaw, Addr: a}
		if name == "memstr" {
			return CV{V: r.rawLoadSlice(env.cur, p, false), T: types.Typ[types.String]}
		}
		return CV{V: r.rawLoadSlice(env.cur, p, true), T: specTypes["bytes"]}
	case "rawbytes":
		// rawbytes(p, n): view of raw memory
		a := r.scalar(arg(0).V)
		n := argInt(1)
		return CV{V: SliceV{Base: tb.BVI(64, 0), Off: a, Len: n, Cap: n, Raw: true}, T: specTypes["bytes"]}
	case "allocated":
		switch v := arg(0).V.(type) {
		case SliceV:
			return CV{V: Scalar{tb.Select(env.cur.BA, v.Base)}, T: boolT}
		case Scalar:
			return CV{V: Scalar{tb.Select(env.cur.BA, v.T)}, T: boolT}
		}
	case "asiface":
		x := arg(0)
		if iv, ok := x.V.(IfaceV); ok {
			return CV{V: iv, T: x.T}
		}
		return CV{V: r.makeInterface(env.cur, x.V, x.T), T: specTypes["iface"]}
	case "ifaceof":
		tg, dt := r.scalar(arg(0).V), r.scalar(arg(1).V)
		return CV{V: IfaceV{Tag: tg, Data: dt}, T: specTypes["iface"]}
	case "tag":
		return CV{V: Scalar{arg(0).V.(IfaceV).Tag}, T: types.Typ[types.Uint64]}
	case "data":
		return CV{V: Scalar{arg(0).V.(IfaceV).Data}, T: types.Typ[types.UnsafePointer]}
	case "unbox":
		// unbox(x, "Type"): the concrete value of that type held in interface value x
		iv := arg(0).V.(IfaceV)
		t := r.e.parseTypeName(env.pkg, e.Args[1].Str)
		if t == nil {
			panic(cerr("unbox: unknown type %q", e.Args[1].Str))
		}
		if isPointerLike(t) {
			return CV{V: Scalar{iv.Data}, T: t}
		}
		return CV{V: r.unbox(iv.Data, t), T: t}
	case "umul":
		a, b := env.coerceConst(arg(0), types.Typ[types.Int64]), env.coerceConst(arg(1), types.Typ[types.Int64])
		return CV{V: Scalar{r.e.umul(r.scalar(a.V), r.scalar(b.V))}, T: a.T}
	case "bhframe":
		// every byte object allocated at function entry, other than the listed ones, has its entry content
		ent := r.rootEntry()
		b := tb.BoundVar("b", BV64)
		conds := []*Term{tb.Select(ent.BA, b)}
		for i := range e.Args {
			switch v := arg(i).V.(type) {
			case SliceV:
				conds = append(conds, tb.Ne(b, v.Base))
			case Scalar:
				conds = append(conds, tb.Ne(b, v.T))
			}
		}
		return CV{V: Scalar{tb.Forall([]*Term{b}, tb.Implies(tb.And(conds...), tb.Eq(tb.Select(env.cur.BH, b), tb.Select(ent.BH, b))))}, T: boolT}
	case "mapframe":
		// mapframe(m): every map of m's type other than m itself has the content it had at function entry
		m := arg(0)
		mt, ok := m.T.Underlying().(*types.Map)
		if !ok {
			panic(cerr("mapframe: not a map"))
		}
		k := mapTypeKey(mt)
		cur := r.mapVer(env.cur, mt)
		old := r.rootEntry().MapVer[k]
		if old == nil {
			old = tb.Var("MV0:"+k, BV64)
		}
		if old == cur {
			return CV{V: Scalar{tb.True()}, T: boolT}
		}
		return CV{V: Scalar{r.mapSameExcept(k, []freshMap{{h: r.scalar(m.V), t: mt}}, old, cur)}, T: boolT}
	case "freshrange":
		// freshrange(p, n): no address of [p, p+n) was allocated when the function under verification was entered
		a := r.scalar(arg(0).V)
		n := argInt(1)
		k := tb.BoundVar("k", BV64)
		ra := r.rootEntry().RA
		return CV{V: Scalar{tb.Forall([]*Term{k}, tb.Implies(tb.ULt(tb.Sub(k, a), n), tb.Not(tb.Select(ra, k))), []*Term{tb.Select(ra, k)})}, T: boolT}
	case "heapframe":
		// heapframe("T"): every typed-heap cell of a value of type T at an address allocated at function entry still has
		// its entry content (the loop-invariant form of the frame condition for typed objects)
		if e.Args[0].Kind != "str" {
			panic(cerr("heapframe expects a type name string"))
		}
		T := r.e.parseTypeName(env.pkg, e.Args[0].Str)
		if T == nil {
			panic(cerr("heapframe: unknown type %q", e.Args[0].Str))
		}
		ent := r.rootEntry()
		var cs []*Term
		for _, lk := range r.typeLeafKeys(T) {
			cur := r.e.heapArr(env.cur, lk.key, lk.sort)
			ini := ent.Heap[lk.key]
			if ini == nil {
				ini = r.e.initHeap[lk.key]
			}
			if ini == nil || ini == cur {
				continue
			}
			k := tb.BoundVar("k", BV64)
			cs = append(cs, tb.Forall([]*Term{k}, tb.Implies(tb.Select(ent.RA, k), tb.Eq(tb.Select(cur, k), tb.Select(ini, k)))))
		}
		return CV{V: Scalar{tb.And(cs...)}, T: boolT}
	case "newobj":
		// not allocated in the old state (function entry when verifying a body; the pre-state at a call site)
		ent := env.old
		if ent == nil {
			ent = r.rootEntry()
		}
		switch v := arg(0).V.(type) {
		case SliceV:
			return CV{V: Scalar{tb.Not(tb.Select(ent.BA, v.Base))}, T: boolT}
		case Scalar:
			return CV{V: Scalar{tb.Not(tb.Select(ent.BA, v.T))}, T: boolT}
		}
	case "sameobj":
		// content of the byte object behind x is what it was in the old state
		v := arg(0).V.(SliceV)
		return CV{V: Scalar{tb.Eq(tb.Select(env.cur.BH, v.Base), tb.Select(env.old.BH, v.Base))}, T: boolT}
	case "zeroed":
		// zeroed(p, n): every byte of [p,p+n) is zero
		a := r.scalar(arg(0).V)
		n := argInt(1)
		k := tb.BoundVar("k", BV64)
		return CV{V: Scalar{tb.Forall([]*Term{k}, tb.Implies(tb.ULt(tb.Sub(k, a), n), tb.Eq(tb.Select(env.cur.M, k), tb.BVI(8, 0))))}, T: boolT}
	case "rawfresh":
		// rawfresh(p, n): no byte of [p,p+n) was allocated in the old state
		a := r.scalar(arg(0).V)
		n := argInt(1)
		old := env.old
		if old == nil {
			old = r.rootEntry()
		}
		k := tb.BoundVar("k", BV64)
		return CV{V: Scalar{tb.Forall([]*Term{k}, tb.Implies(tb.ULt(tb.Sub(k, a), n), tb.Not(tb.Select(old.RA, k))))}, T: boolT}
	case "oldalloc":
		// oldalloc(p, n): every byte of [p,p+n) was allocated raw memory in the old state
		a := r.scalar(arg(0).V)
		n := argInt(1)
		old := env.old
		if old == nil {
			old = r.rootEntry()
		}
		k := tb.BoundVar("k", BV64)
		return CV{V: Scalar{tb.Forall([]*Term{k}, tb.Implies(tb.ULt(tb.Sub(k, a), n), tb.Select(old.RA, k)))}, T: boolT}
	case "memframe":
		// memframe(p, n): raw memory allocated in the old state is unchanged outside [p,p+n)
		a := r.scalar(arg(0).V)
		n := argInt(1)
		k := tb.BoundVar("k", BV64)
		return CV{V: Scalar{tb.Forall([]*Term{k}, tb.Implies(tb.And(tb.Select(env.old.RA, k), tb.Not(tb.ULt(tb.Sub(k, a), n))), tb.Eq(tb.Select(env.cur.M, k), tb.Select(env.old.M, k))))}, T: boolT}
	case "rawalloc":
		// rawalloc(p, n): every byte of [p,p+n) is allocated raw memory, and the range lies in the user address
		// space without wrapping (p + n <= 2^48)
		a := r.scalar(arg(0).V)
		n := argInt(1)
		k := tb.BoundVar("k", BV64)
		all := tb.Forall([]*Term{k}, tb.Implies(tb.ULt(tb.Sub(k, a), n), tb.Select(env.cur.RA, k)))
		lim := tb.BVU(64, 1<<48)
		sane := tb.Implies(tb.SGt(n, tb.BVI(64, 0)), tb.And(tb.ULt(a, lim), tb.ULt(n, lim), tb.ULe(tb.Add(a, n), lim)))
		return CV{V: Scalar{tb.And(all, sane)}, T: boolT}
	case "sext", "zext":
		x := arg(0)
		w := int(e.Args[1].Lit.Int64())
		t := r.scalar(x.V)
		if name == "sext" {
			return CV{V: Scalar{tb.SExt(t, w)}, T: map[int]types.Type{16: types.Typ[types.Int16], 32: types.Typ[types.Int32], 64: types.Typ[types.Int64]}[w]}
		}
		return CV{V: Scalar{tb.ZExt(t, w)}, T: map[int]types.Type{8: types.Typ[types.Uint8], 16: types.Typ[types.Uint16], 32: types.Typ[types.Uint32], 64: types.Typ[types.Uint64]}[w]}
	case "wraps":
		a, b := arg(0).V.(IfaceV), arg(1).V.(IfaceV)
		return CV{V: Scalar{r.e.wraps(a, b)}, T: boolT}
	case "implementsiface":
		iv := arg(0).V.(IfaceV)
		t := r.e.parseTypeName(env.pkg, e.Args[1].Str)
		if t == nil {
			panic(cerr("implementsiface: unknown type %q", e.Args[1].Str))
		}
		return CV{V: Scalar{tb.App("implements:"+typeKey(t), BoolSort, iv.Tag)}, T: boolT}
	case "typeis":
		iv := arg(0).V.(IfaceV)
		return CV{V: Scalar{tb.Eq(iv.Tag, r.e.typeTagByName(env.pkg, e.Args[1].Str))}, T: boolT}
	case "sizeof":
		if e.Args[0].Kind == "ident" {
			if t, ok := specTypes[e.Args[0].Name]; ok {
				return CV{Const: big.NewInt(r.e.sizeof(t))}
			}
		}
		x := arg(0)
		return CV{Const: big.NewInt(r.e.sizeof(x.T))}
	case "f32", "f64":
		// floating-point view for feq etc. not exposed as value
	case "isnan":
		x := r.scalar(arg(0).V)
		return CV{V: Scalar{tb.Raw("fp.isNaN", BoolSort, r.toFP(x))}, T: boolT}
	case "feq":
		x, y := r.scalar(arg(0).V), r.scalar(arg(1).V)
		return CV{V: Scalar{tb.Raw("fp.eq", BoolSort, r.toFP(x), r.toFP(y))}, T: boolT}
	case "to64":
		x := r.scalar(arg(0).V)
		return CV{V: Scalar{r.fpToBits(tb.Raw("(_ to_fp 11 53) RNE", FP(64), r.toFP(x)), 64)}, T: types.Typ[types.Float64]}
	case "to32":
		x := r.scalar(arg(0).V)
		return CV{V: Scalar{r.fpToBits(tb.Raw("(_ to_fp 8 24) RNE", FP(32), r.toFP(x)), 32)}, T: types.Typ[types.Float32]}
	case "iterleft":
		// entries the (single) runtime map iterator of the function still has to deliver
		return CV{V: Scalar{r.e.ghost(env.cur, "iter.left", BV64)}, T: it}
	case "itermap":
		return CV{V: Scalar{r.e.ghost(env.cur, "iter.map", BV64)}, T: types.Typ[types.Uint64]}
	case "inpos":
		return CV{V: Scalar{r.e.ghost(env.cur, "in.pos", BV64)}, T: it}
	case "inlen":
		return CV{V: Scalar{r.e.ghost(env.cur, "in.len", BV64)}, T: it}
	case "instream":
		// the whole input stream as a (ghost, immutable) byte string
		return CV{V: SliceV{Base: tb.BVI(64, 0), Off: tb.BVI(64, 0), Len: r.e.ghost(env.cur, "in.len", BV64), Arr: r.e.ghost(env.cur, "in.data", ByteAr)}, T: specTypes["bytes"]}
	case "tlen":
		return CV{V: Scalar{r.e.ghost(env.cur, "trace.len", BV64)}, T: it}
	case "tbytes":
		// tbytes(i, offslot, lenslot): the byte string recorded in event i (its offset/length live in the named word slots)
		i := argInt(0)
		offN, lenN := "c", "d"
		if len(e.Args) == 3 {
			offN, lenN = e.Args[1].Name, e.Args[2].Name
		}
		arrs := r.e.ghost(env.cur, "trace.arr", ObjAr)
		off := tb.Select(r.e.ghost(env.cur, "trace."+offN, WordAr), i)
		ln := tb.Select(r.e.ghost(env.cur, "trace."+lenN, WordAr), i)
		return CV{V: SliceV{Base: tb.BVI(64, 0), Off: off, Len: ln, Arr: tb.Select(arrs, i)}, T: specTypes["bytes"]}
	case "sub":
		// sub(s, lo, hi): s[lo:hi] of a byte slice, string or byte array
		lo, hi := argInt(1), argInt(2)
		switch v := arg(0).V.(type) {
		case SliceV:
			nv := v
			nv.Off = tb.Add(v.Off, lo)
			nv.Len = tb.Sub(hi, lo)
			if v.Cap != nil {
				nv.Cap = tb.Sub(v.Cap, lo)
			}
			return CV{V: nv, T: specTypes["bytes"]}
		case PtrV:
			if v.Kind == PByteObj {
				return CV{V: SliceV{Base: v.Base, Off: lo, Len: tb.Sub(hi, lo), Cap: tb.Sub(tb.BVI(64, v.N), lo)}, T: specTypes["bytes"]}
			}
		case ArrV:
			return CV{V: SliceV{Base: tb.BVI(64, 0), Off: lo, Len: tb.Sub(hi, lo), Arr: v.Arr}, T: specTypes["bytes"]}
		}
		panic(cerr("sub of %T", arg(0).V))
	case "streq", "samebytes":
		// content equality of two byte strings (slices, strings, recorded event bytes)
		x, okx := arg(0).V.(SliceV)
		y, oky := arg(1).V.(SliceV)
		if !okx || !oky {
			panic(cerr("%s expects byte strings", name))
		}
		return CV{V: Scalar{r.stringEq(env.cur, x, y)}, T: boolT}
	case "bytesframe":
		// bytesframe(p, n): the byte object behind p is unchanged outside p[0:n] (relative to the old state)
		v := arg(0).V.(SliceV)
		n := argInt(1)
		a := tb.BoundVar("a", BV64)
		return CV{V: Scalar{tb.Forall([]*Term{a}, tb.Implies(tb.Not(tb.ULt(tb.Sub(a, v.Off), n)),
			tb.Eq(tb.Select(tb.Select(env.cur.BH, v.Base), a), tb.Select(tb.Select(env.old.BH, v.Base), a))))}, T: boolT}
	case "maphas", "mapget", "maphask", "mapgetk":
		// maphask/mapgetk take the key in its map-key form (strkey(s) for strings), so a contract can quantify over keys
		m := arg(0)
		mt, ok := m.T.Underlying().(*types.Map)
		if !ok {
			panic(cerr("%s: not a map", name))
		}
		h := r.scalar(m.V)
		var key *Term
		if strings.HasSuffix(name, "k") {
			key = r.scalar(arg(1).V)
			name = strings.TrimSuffix(name, "k")
		} else {
			key = r.mapKeyOf(env.cur, arg(1).V, mt.Key())
		}
		val, has := r.mapLookupVal(env.cur, mt, h, key, "")
		has = tb.And(tb.Ne(h, tb.BVI(64, 0)), has)
		if name == "maphas" {
			return CV{V: Scalar{has}, T: boolT}
		}
		return CV{V: val, T: mt.Elem()}
	case "iterpos":
		// position (byte index of the next rune) of the function's string range iterator
		for k, v := range env.cur.Ghost {
			if strings.HasPrefix(k, "iterpos:") && v != nil {
				return CV{V: Scalar{v}, T: it}
			}
		}
		panic(cerr("iterpos(): no range iterator in scope"))
	case "typearg":
		// typearg(i): the type tag of the i-th type argument of the generic callee whose contract is being applied
		// (for a type parameter of the function under verification: its symbolic tag)
		n := int(e.Args[0].Lit.Int64())
		if n >= len(r.curTypeArgs) {
			panic(cerr("typearg(%d): the callee has %d type arguments", n, len(r.curTypeArgs)))
		}
		return CV{V: Scalar{r.e.typeArgTag(r.curTypeArgs[n])}, T: types.Typ[types.Uint64]}
	case "loopdec":
		// loopdec(N): the value the decreases measure of (enclosing) loop N had at its header
		n := int(e.Args[0].Lit.Int64())
		for _, li := range r.loops {
			if li.Ordinal == n && li.decAtHeader != nil {
				return CV{V: Scalar{li.decAtHeader}, T: it}
			}
		}
		panic(cerr("loopdec(%d): loop has no measure recorded yet", n))
	case "locked", "rlocked", "lockframe", "rlockframe":
		// lock ownership of the executing goroutine (ghost): locked(m) = m is write-locked by us, rlocked(m) = read-locked
		key := "lock.held"
		if name == "rlocked" || name == "rlockframe" {
			key = "lock.rheld"
		}
		var addr *Term
		if a0 := e.Args[0]; a0.Kind == "ident" {
			if _, isVar := env.lookup(a0.Name); !isVar && env.r.names[a0.Name] == nil {
				if env.pkg != nil {
					if sp := r.e.ssaPkgs[env.pkg.Path()]; sp != nil {
						if g, ok := sp.Members[a0.Name].(*ssa.Global); ok {
							addr = r.e.gaddr(g)
						}
					}
				}
				if addr == nil {
					var paths []string
					for path := range r.e.repoPkgs {
						paths = append(paths, path)
					}
					sort.Strings(paths)
					for _, path := range paths {
						if sp := r.e.ssaPkgs[path]; sp != nil {
							if g, ok := sp.Members[a0.Name].(*ssa.Global); ok && addr == nil {
								addr = r.e.gaddr(g)
							}
						}
					}
				}
			}
		}
		if addr == nil {
			switch v := arg(0).V.(type) {
			case Scalar:
				addr = v.T
			case PtrV:
				addr = r.e.ptrNum(v)
			default:
				panic(cerr("%s: argument must be a mutex variable or pointer", name))
			}
		}
		cur := r.e.ghost(env.cur, key, BoolAr)
		if name == "locked" || name == "rlocked" {
			return CV{V: Scalar{tb.Select(cur, addr)}, T: boolT}
		}
		old := r.e.ghost(env.old, key, BoolAr)
		x := tb.BoundVar("x", BV64)
		return CV{V: Scalar{tb.Forall([]*Term{x}, tb.Implies(tb.Ne(x, addr), tb.Eq(tb.Select(cur, x), tb.Select(old, x))), []*Term{tb.Select(cur, x)})}, T: boolT}
	case "cowned":
		switch v := arg(0).V.(type) {
		case SliceV:
			return CV{V: Scalar{tb.App("cowned", BoolSort, v.Base)}, T: boolT}
		case Scalar:
			return CV{V: Scalar{tb.App("cowned", BoolSort, v.T)}, T: boolT}
		case PtrV:
			if v.Kind == PByteObj {
				return CV{V: Scalar{tb.App("cowned", BoolSort, v.Base)}, T: boolT}
			}
		}
		panic(cerr("cowned of %T", arg(0).V))
	case "bhframe_unowned":
		// byte objects allocated in the old state that do not belong to a compressor are unchanged
		b := tb.BoundVar("b", BV64)
		return CV{V: Scalar{tb.Forall([]*Term{b}, tb.Implies(tb.And(tb.Select(env.old.BA, b), tb.Not(tb.App("cowned", BoolSort, b))), tb.Eq(tb.Select(env.cur.BH, b), tb.Select(env.old.BH, b))))}, T: boolT}
	case "tkind", "ta", "tb", "tc", "td", "te", "tf", "tg", "th":
		i := argInt(0)
		arr := r.e.ghost(env.cur, "trace."+name[1:], WordAr)
		return CV{V: Scalar{tb.Select(arr, i)}, T: types.Typ[types.Uint64]}
	}
	if strings.HasPrefix(name, "ev") {
		if k, ok := eventKinds[name[2:]]; ok {
			return CV{Const: big.NewInt(int64(k))}
		}
	}
	// user-defined spec function
	if sf, ok := r.e.specs.Specs[name]; ok {
		if len(sf.Params) != len(e.Args) {
			panic(cerr("spec %s expects %d args", name, len(sf.Params)))
		}
		var args []CV
		for i := range e.Args {
			a := arg(i)
			if pt, ok := specTypes[sf.PTypes[i]]; ok {
				if a.Const != nil {
					a = env.coerceConst(a, pt)
				}
			}
			args = append(args, a)
		}
		if sf.Uninterp {
			if len(args) > 0 && len(sf.PTypes) > 0 && sf.PTypes[0] == "iface" {
				if iv, ok := args[0].V.(IfaceV); ok {
					if res, ok := env.dispatchGhost(name, sf, iv, args); ok {
						return res
					}
				}
			}
			var ts []*Term
			for _, a := range args {
				if sv, isSlice := a.V.(SliceV); isSlice {
					// byte strings are identified by content, offset and length (not by the identity of the backing object)
					ts = append(ts, r.sliceContent(env.cur, sv), sv.Off, sv.Len)
					continue
				}
				var ls []leaf
				leaves(a.V, "", &ls)
				for _, l := range ls {
					ts = append(ts, l.T)
				}
			}
			if sf.ReadsM {
				ts = append(ts, env.cur.M, env.cur.SB, env.cur.SO)
			}
			rt, ok := specTypes[sf.Ret]
			if !ok {
				panic(cerr("unknown return type %s of ghost %s", sf.Ret, name))
			}
			if sf.Ret == "bytes" || sf.Ret == "string" {
				// a ghost byte string: an uninterpreted content array and length (no backing object)
				ln := tb.App("ghost:"+name+".len", BV64, ts...)
				if !ln.hasBV {
					env.r.addFact(tb.And(tb.SGe(ln, tb.BVI(64, 0)), tb.SLt(ln, tb.BVI(64, 1<<40))))
				}
				return CV{V: SliceV{Base: tb.BVI(64, 0), Off: tb.BVI(64, 0), Len: ln, Arr: tb.App("ghost:"+name+".arr", ByteAr, ts...)}, T: rt}
			}
			var s *Sort
			if isBool(rt) {
				s = BoolSort
			} else {
				w, _, _ := basicInfo(rt)
				s = BV(w)
			}
			return CV{V: Scalar{tb.App("ghost:"+name, s, ts...)}, T: rt}
		}
		ce := &Env{r: r, vars: map[string]CV{}, cur: env.cur, old: env.old, pkg: env.pkg}
		for i, p := range sf.Params {
			ce.vars[p] = args[i]
		}
		res := ce.Eval(sf.Body)
		if rt, ok := specTypes[sf.Ret]; ok {
			if res.Const != nil {
				res = env.coerceConst(res, rt)
			} else if !isBool(rt) {
				if _, isS := res.V.(Scalar); isS {
					res.T = rt
				}
			}
		}
		return res
	}
	panic(cerr("unknown function %q in %q", name, e.String()))
}

func (e *Engine) wraps(a, b IfaceV) *Term {
	tb := e.tb
	same := tb.And(tb.Eq(a.Tag, b.Tag), tb.Eq(a.Data, b.Data))
	return tb.Or(same, tb.App("wraps", BoolSort, a.Tag, a.Data, b.Tag, b.Data))
}

func (e *Engine) typeTagByName(from *types.Package, name string) *Term {
	// name like "IntCodec[int32]" or "*arrayCodec" relative to package, or fully qualified
	t := e.parseTypeName(from, name)
	if t == nil {
		panic(cerr("unknown type %q", name))
	}
	return e.typeTag(t)
}

func (e *Engine) parseTypeName(from *types.Package, name string) types.Type {
	ptr := strings.HasPrefix(name, "*")
	name = strings.TrimPrefix(name, "*")
	pkg := from
	base := name
	targ := ""
	if i := strings.Index(base, "["); i >= 0 {
		targ = strings.TrimSuffix(base[i+1:], "]")
		base = base[:i]
	}
	if i := strings.LastIndex(base, "."); i >= 0 {
		pp := base[:i]
		base = base[i+1:]
		if sp, ok := e.ssaPkgs[pp]; ok {
			pkg = sp.Pkg
		} else {
			var paths []string
			for path, sp := range e.ssaPkgs {
				if sp.Pkg.Name() == pp {
					paths = append(paths, path)
				}
			}
			sort.Strings(paths)
			if len(paths) > 0 {
				pkg = e.ssaPkgs[paths[0]].Pkg
			}
		}
	}
	if pkg == nil {
		return nil
	}
	obj := pkg.Scope().Lookup(base)
	if obj == nil {
		return nil
	}
	t := obj.Type()
	if targ != "" {
		named, ok := t.(*types.Named)
		if !ok {
			return nil
		}
		var targs []types.Type
		for _, ts := range strings.Split(targ, ",") {
			tt, ok := specTypes[strings.TrimSpace(ts)]
			if !ok {
				return nil
			}
			targs = append(targs, tt)
		}
		inst, err := types.Instantiate(types.NewContext(), named, targs, false)
		if err != nil {
			return nil
		}
		t = inst
	}
	if ptr {
		t = types.NewPointer(t)
	}
	return t
}

var eventKinds = map[string]int{"V": 1, "B": 2, "W": 3, "CW": 4, "RV": 5, "RB": 6, "RN": 7, "CR": 8, "CS": 9, "OUT": 10, "TOK": 11, "CB": 12, "NEW": 13, "OMIT": 14, "WB": 15, "FL": 16, "CLR": 17, "HDR": 18, "IN": 19, "ENC": 20, "MAPSET": 21, "REG": 22, "BUILD": 23}

// useAxiom instantiates an axiom schema at the given argument expressions.
func (env *Env) useAxiom(e *Expr) *Term {
	p, q := env.applyLemma(e, false)
	if p == nil {
		return q
	}
	return env.tb().Implies(p, q)
}

// applyLemma instantiates axiom/lemma e.Name at the given arguments.  With split set and a statement of the form
// P ==> Q it returns (P, Q) so that the caller can prove P as an obligation of its own and assume Q outright.
func (env *Env) applyLemma(e *Expr, split bool) (*Term, *Term) {
	r := env.r
	ax, ok := r.e.specs.Axioms[e.Name]
	isLemma := false
	if !ok {
		// a lemma with parameters can be used like an axiom: it is proved separately (obligation lemma:NAME)
		for _, l := range r.e.specs.Lemmas {
			if l.Name == e.Name && len(l.Params) > 0 {
				ax = &SpecFunc{Name: l.Name, Params: l.Params, PTypes: l.PTypes, Body: l.E}
				ok, isLemma = true, true
			}
		}
	}
	if !ok {
		panic(cerr("unknown axiom %s", e.Name))
	}
	if len(ax.Params) != len(e.Args) {
		panic(cerr("axiom %s expects %d arguments", e.Name, len(ax.Params)))
	}
	ce := &Env{r: r, vars: map[string]CV{}, cur: env.cur, old: env.old, pkg: env.pkg}
	for i, p := range ax.Params {
		a := env.Eval(e.Args[i])
		if pt, ok := specTypes[ax.PTypes[i]]; ok && a.Const != nil {
			a = env.coerceConst(a, pt)
		}
		ce.vars[p] = a
	}
	if !isLemma {
		r.e.usedAxioms[e.Name] = true
	}
	if split && ax.Body.Kind == "binary" && ax.Body.Op == "==>" {
		return ce.EvalBool(ax.Body.Args[0]), ce.EvalBool(ax.Body.Args[1])
	}
	return nil, ce.EvalBool(ax.Body)
}

// dispatchGhost expands a per-type ghost attribute when the dynamic type of the interface value is known
// (a constant tag, or an if-then-else tree of constant tags).
func (env *Env) dispatchGhost(name string, sf *SpecFunc, iv IfaceV, args []CV) (CV, bool) {
	r := env.r
	tb := env.tb()
	switch {
	case iv.Tag.IsConst():
		ta, t := r.e.attrsForTag(iv.Tag)
		if ta == nil {
			return CV{}, false
		}
		ad, ok := ta.Attrs[name]
		if !ok {
			return CV{}, false
		}
		if len(ad.Params) != len(args)-1 {
			panic(cerr("attribute %s of %s expects %d extra arguments", name, ta.TypeKey, len(ad.Params)))
		}
		if env.ghostDepth > 6 {
			return CV{}, false
		}
		ce := &Env{r: r, vars: map[string]CV{}, cur: env.cur, old: env.old, pkg: env.pkg, ghostDepth: env.ghostDepth + 1}
		if ta.Pkg != "" {
			if sp := r.e.ssaPkgs[ta.Pkg]; sp != nil {
				ce.pkg = sp.Pkg
			}
		}
		// receiver
		if isPointerLike(t) {
			ce.vars["this"] = CV{V: Scalar{iv.Data}, T: t}
		} else {
			ce.vars["this"] = CV{V: r.unbox(iv.Data, t), T: t}
		}
		ce.vars["self"] = CV{V: iv, T: specTypes["iface"]}
		for i, pn := range ad.Params {
			ce.vars[pn] = args[i+1]
		}
		res := ce.Eval(ad.Body)
		if rt, ok := specTypes[sf.Ret]; ok {
			if res.Const != nil {
				res = env.coerceConst(res, rt)
			} else if !isBool(rt) {
				if _, isS := res.V.(Scalar); isS {
					res.T = rt
				}
			}
		}
		return res, true
	case iv.Tag.Op == "ite":
		c := iv.Tag.Args[0]
		// data may or may not be an ite on the same condition
		dA, dB := iv.Data, iv.Data
		if iv.Data.Op == "ite" && iv.Data.Args[0] == c {
			dA, dB = iv.Data.Args[1], iv.Data.Args[2]
		}
		a, okA := env.dispatchGhostOrUF(name, sf, IfaceV{Tag: iv.Tag.Args[1], Data: dA}, args)
		b, okB := env.dispatchGhostOrUF(name, sf, IfaceV{Tag: iv.Tag.Args[2], Data: dB}, args)
		if !okA || !okB {
			return CV{}, false
		}
		a, b = env.unify(a, b)
		return CV{V: r.e.iteVal(c, a.V, b.V), T: a.T}, true
	}
	_ = tb
	return CV{}, false
}

func (env *Env) dispatchGhostOrUF(name string, sf *SpecFunc, iv IfaceV, args []CV) (CV, bool) {
	if res, ok := env.dispatchGhost(name, sf, iv, args); ok {
		return res, true
	}
	// fall back to the uninterpreted application on this branch
	n := append([]CV{{V: iv, T: args[0].T}}, args[1:]...)
	e := &Expr{Kind: "call", Name: name}
	_ = e
	return env.ghostApp(name, sf, n), true
}

func (env *Env) ghostApp(name string, sf *SpecFunc, args []CV) CV {
	r := env.r
	tb := env.tb()
	var ts []*Term
	for _, a := range args {
		if sv, isSlice := a.V.(SliceV); isSlice {
			ts = append(ts, r.sliceContent(env.cur, sv), sv.Off, sv.Len)
			continue
		}
		var ls []leaf
		leaves(a.V, "", &ls)
		for _, l := range ls {
			ts = append(ts, l.T)
		}
	}
	if sf.ReadsM {
		ts = append(ts, env.cur.M, env.cur.SB, env.cur.SO)
	}
	rt, ok := specTypes[sf.Ret]
	if !ok {
		panic(cerr("unknown return type %s of ghost %s", sf.Ret, name))
	}
	var s *Sort
	if isBool(rt) {
		s = BoolSort
	} else {
		w, _, _ := basicInfo(rt)
		s = BV(w)
	}
	return CV{V: Scalar{tb.App("ghost:"+name, s, ts...)}, T: rt}
}

func (e *Engine) attrsForTag(tag *Term) (*TypeAttr, types.Type) {
	if e.attrIndex == nil {
		e.attrIndex = map[string]*TypeAttr{}
		e.attrTypes = map[string]types.Type{}
		for _, ta := range e.specs.TypeAttrs {
			var from *types.Package
			if sp := e.ssaPkgs[ta.Pkg]; sp != nil {
				from = sp.Pkg
			}
			t := e.parseTypeName(from, ta.TypeKey)
			if t == nil {
				panic(cerr("type attributes for unknown type %q", ta.TypeKey))
			}
			k := e.typeTag(t).Val.String()
			e.attrIndex[k] = ta
			e.attrTypes[k] = t
		}
	}
	k := tag.Val.String()
	return e.attrIndex[k], e.attrTypes[k]
}
