package main

// Replay of solver counterexamples against the real code.
//
// A counter-model of a failed obligation is turned into concrete Go values (receiver fields, buffer contents, scalar
// arguments), a test that calls the REAL function with them is injected with `go test -overlay` (nothing is written
// into /repo), and the violation counts as replayed only if the real code misbehaves on that input: it panics (panic
// obligations), or it breaks the Go-coded oracle of the harness (a few postconditions).  Functions without a harness,
// and models the harness cannot realise (abstract reflect types, runtime maps, huge allocations), are reported with the
// suffix no-failing-input-found; the replay file then carries the failed obligation and the solver's output only.

import (
	"encoding/json"
	"fmt"
	"os"
	"os/exec"
	"path/filepath"
	"strconv"
	"strings"
)

type replayHarness struct {
	pkgDir string // directory of the package under /repo ("" = root)
	pkg    string
	// terms to evaluate in the model, by name
	want func(e *Engine, o *Obligation) []namedTerm
	// Go test source given the evaluated values; "" if the model cannot be realised
	gen func(vals map[string]uint64, o *Obligation) string
}

type namedTerm struct {
	name string
	t    *Term
}

const replayBytes = 48 // buffer bytes materialised from the model

func (e *Engine) inputTerm(o *Obligation, name string) *Term {
	for _, l := range o.Inputs {
		if l.Name == name {
			return l.T
		}
	}
	return nil
}

// readBufTerms: fields of a *ReadBuf parameter at function entry and the first bytes of its buffer.
func (e *Engine) readBufTerms(o *Obligation, param string) []namedTerm {
	tb := e.tb
	p := e.inputTerm(o, param)
	if p == nil {
		return nil
	}
	h := func(f string, s *Sort) *Term { return tb.Var("H0:github.com/philpearl/avro.ReadBuf#"+f, s) }
	base := tb.Select(h("buf.base", WordAr), p)
	off := tb.Select(h("buf.off", WordAr), p)
	ln := tb.Select(h("buf.len", WordAr), p)
	out := []namedTerm{{"rb.i", tb.Select(h("i", WordAr), p)}, {"rb.len", ln}, {"rb.ptr", p}}
	content := tb.Select(tb.Var("BH0", ObjAr), base)
	for k := 0; k < replayBytes; k++ {
		out = append(out, namedTerm{fmt.Sprintf("rb.b%d", k), tb.ZExt(tb.Select(content, tb.Add(off, tb.BVI(64, int64(k)))), 64)})
	}
	return out
}

func scalarTerms(e *Engine, o *Obligation, names ...string) []namedTerm {
	var out []namedTerm
	for _, n := range names {
		if t := e.inputTerm(o, n); t != nil && t.Sort.Kind == SBV {
			if t.Sort.W < 64 {
				t = e.tb.ZExt(t, 64)
			}
			out = append(out, namedTerm{n, t})
		}
	}
	return out
}

func goBuf(vals map[string]uint64) (string, bool) {
	n := int64(vals["rb.len"])
	if n < 0 || n > replayBytes {
		return "", false // longer buffers than we materialise: not realisable here
	}
	var bs []string
	for k := int64(0); k < n; k++ {
		bs = append(bs, strconv.Itoa(int(vals[fmt.Sprintf("rb.b%d", k)]&0xff)))
	}
	return "[]byte{" + strings.Join(bs, ", ") + "}", true
}

const replayPrelude = `package %s

import (
	"fmt"
	"testing"
)

var _ = fmt.Sprint

func replayGuard(t *testing.T, what string, f func()) {
	defer func() {
		if x := recover(); x != nil {
			t.Logf("REPLAY-CONFIRMED: %%s panicked: %%v", what, x)
			t.Fail()
		}
	}()
	f()
}
`

// harness for methods of *ReadBuf taking at most one integer argument, and for skip(r, l)
func readBufHarness(recv string, call string, args ...string) *replayHarness {
	return &replayHarness{pkg: "avro",
		want: func(e *Engine, o *Obligation) []namedTerm {
			return append(e.readBufTerms(o, recv), scalarTerms(e, o, args...)...)
		},
		gen: func(vals map[string]uint64, o *Obligation) string {
			buf, ok := goBuf(vals)
			if !ok {
				return ""
			}
			c := call
			for _, a := range args {
				c = strings.ReplaceAll(c, "$"+a, fmt.Sprintf("int64(%d)", int64(vals[a])))
			}
			return fmt.Sprintf(replayPrelude, "avro") + fmt.Sprintf(`
func TestGovcReplay(t *testing.T) {
	r := &ReadBuf{buf: %s, i: int(%d), rb: newResourceBank()}
	n := len(r.buf)
	replayGuard(t, %q, func() {
		%s
		if r.i < 0 || r.i > n {
			t.Logf("REPLAY-CONFIRMED: read position %%d outside the buffer of %%d bytes", r.i, n)
			t.Fail()
		}
	})
}
`, buf, int64(vals["rb.i"]), o.Func, c)
		}}
}

// harness for Read/Skip of a codec value that can be written as a Go expression
func codecHarness(expr string, size int) *replayHarness {
	return &replayHarness{pkg: "avro",
		want: func(e *Engine, o *Obligation) []namedTerm { return e.readBufTerms(o, "r") },
		gen: func(vals map[string]uint64, o *Obligation) string {
			buf, ok := goBuf(vals)
			if !ok {
				return ""
			}
			call := "_ = c.Skip(r)"
			if strings.HasSuffix(o.Func, ".Read") || strings.Contains(o.Func, ".Read as ") {
				call = fmt.Sprintf("var dst [%d]byte\n\t\t_ = c.Read(r, unsafe.Pointer(&dst))", size)
			}
			src := fmt.Sprintf(replayPrelude, "avro")
			src = strings.Replace(src, "\"testing\"\n", "\"testing\"\n\t\"unsafe\"\n", 1)
			return src + fmt.Sprintf(`
var _ = unsafe.Pointer(nil)

func TestGovcReplay(t *testing.T) {
	r := &ReadBuf{buf: %s, i: int(%d), rb: newResourceBank()}
	n := len(r.buf)
	var c Codec = %s
	replayGuard(t, %q, func() {
		%s
		if r.i < 0 || r.i > n {
			t.Logf("REPLAY-CONFIRMED: read position %%d outside the buffer of %%d bytes", r.i, n)
			t.Fail()
		}
	})
}
`, buf, int64(vals["rb.i"]), expr, o.Func, call)
		}}
}

// harness for parseTime(in string): the oracle is the standard library on strings it accepts (C18) and no panic
func parseTimeHarness() *replayHarness {
	return &replayHarness{pkg: "time", pkgDir: "time",
		want: func(e *Engine, o *Obligation) []namedTerm {
			tb := e.tb
			var base, off, ln *Term
			for _, l := range o.Inputs {
				switch l.Name {
				case "in.base":
					base = l.T
				case "in.off":
					off = l.T
				case "in.len":
					ln = l.T
				}
			}
			if base == nil || off == nil || ln == nil {
				return nil
			}
			out := []namedTerm{{"rb.len", ln}}
			content := tb.Select(tb.Var("BH0", ObjAr), base)
			for k := 0; k < replayBytes; k++ {
				out = append(out, namedTerm{fmt.Sprintf("rb.b%d", k), tb.ZExt(tb.Select(content, tb.Add(off, tb.BVI(64, int64(k)))), 64)})
			}
			return out
		},
		gen: func(vals map[string]uint64, o *Obligation) string {
			buf, ok := goBuf(vals)
			if !ok {
				return ""
			}
			return `package time

import (
	"testing"
	stdtime "time"
)

func TestGovcReplay(t *testing.T) {
	in := string(` + buf + `)
	defer func() {
		if x := recover(); x != nil {
			t.Logf("REPLAY-CONFIRMED: parseTime(%q) panicked: %v", in, x)
			t.Fail()
		}
	}()
	got, err := parseTime(in)
	want, werr := stdtime.Parse(stdtime.RFC3339Nano, in)
	if werr != nil {
		return // not a string the standard library accepts: only the no-panic part applies
	}
	_, wo := want.Zone()
	_, gotOff := got.Zone()
	if err != nil || !got.Equal(want) || gotOff != wo {
		t.Logf("REPLAY-CONFIRMED: parseTime(%q) = %v, %v; time.Parse gives %v", in, got, err, want)
		t.Fail()
	}
}
`
		}}
}

var replayHarnesses = map[string]*replayHarness{
	"(*ReadBuf).Next":         readBufHarness("d", "_, _ = r.Next(int($l))", "l"),
	"(*ReadBuf).NextAsString": readBufHarness("d", "_, _ = r.NextAsString(int($l))", "l"),
	"(*ReadBuf).ReadByte":     readBufHarness("d", "_, _ = r.ReadByte()"),
	"(*ReadBuf).Varint":       readBufHarness("d", "_, _ = r.Varint()"),
	"(*ReadBuf).uvarint":      readBufHarness("d", "_, _ = r.uvarint()"),
	"skip":                    readBufHarness("r", "_ = skip(r, $l)", "l"),
	"(BytesCodec).Read":       codecHarness("BytesCodec{}", 24),
	"(BytesCodec).Skip":       codecHarness("BytesCodec{}", 24),
	"(StringCodec).Read":      codecHarness("StringCodec{}", 16),
	"(StringCodec).Skip":      codecHarness("StringCodec{}", 16),
	"(BoolCodec).Read":        codecHarness("BoolCodec{}", 8),
	"(BoolCodec).Skip":        codecHarness("BoolCodec{}", 8),
	"(IntCodec[int64]).Read":  codecHarness("Int64Codec{}", 8),
	"(IntCodec[int32]).Read":  codecHarness("Int32Codec{}", 8),
	"(IntCodec[int16]).Read":  codecHarness("Int16Codec{}", 8),
	"(IntCodec[int64]).Skip":  codecHarness("Int64Codec{}", 8),
	"time:parseTime":          parseTimeHarness(),
	"time:(DateCodec).Read":   timeReadHarness("DateCodec{}", false),
	"time:(LongCodec).Read":   timeReadHarness("LongCodec{mult: $mult}", true),
	"time:(DateCodec).Write":  timeWriteHarness("DateCodec{}", false),
	"time:(LongCodec).Write":  timeWriteHarness("LongCodec{mult: $mult}", true),
}

// the mult field of a LongCodec receiver (struct leaves are named by field position: Int64Codec is c.0, mult is c.1)
func multTerm(e *Engine, o *Obligation) []namedTerm {
	if t := e.inputTerm(o, "c.1"); t != nil && t.Sort.Kind == SBV && t.Sort.W == 64 {
		return []namedTerm{{"c.mult", t}}
	}
	return nil
}

// findApps collects the applications of an uninterpreted function in the obligation (hypotheses and goal).
func findApps(o *Obligation, name string) []*Term {
	seen := map[*Term]bool{}
	var out []*Term
	var walk func(t *Term)
	walk = func(t *Term) {
		if t == nil || seen[t] {
			return
		}
		seen[t] = true
		if t.Op == "app" && t.Name == sanitize(name) && !t.hasBV {
			out = append(out, t)
		}
		for _, a := range t.Args {
			walk(a)
		}
	}
	for _, h := range o.Hyps {
		walk(h)
	}
	walk(o.Goal)
	return out
}

const timeReplayPrelude = `package time

import (
	"encoding/binary"
	"testing"
	stdtime "time"
	"unsafe"

	"github.com/philpearl/avro"
)

var _ = binary.Varint
var _ = unsafe.Pointer(nil)
var _ avro.Codec
var _ stdtime.Time

func floorDiv(a, b int64) int64 {
	q := a / b
	if a%b != 0 && (a < 0) != (b < 0) {
		q--
	}
	return q
}
`

// harness for DateCodec.Read / LongCodec.Read of package avro/time: the oracle is the Avro definition of the logical
// type (days, or units of mult nanoseconds, from the epoch) on values whose instant is representable (C19)
func timeReadHarness(expr string, long bool) *replayHarness {
	return &replayHarness{pkg: "time", pkgDir: "time",
		want: func(e *Engine, o *Obligation) []namedTerm {
			return append(e.readBufTerms(o, "r"), multTerm(e, o)...)
		},
		gen: func(vals map[string]uint64, o *Obligation) string {
			buf, ok := goBuf(vals)
			if !ok || int64(vals["rb.i"]) < 0 || int64(vals["rb.i"]) > int64(vals["rb.len"]) {
				return ""
			}
			mult := int64(vals["c.mult"])
			if long && mult != 1 && mult != 1000 && mult != 1000000 {
				return ""
			}
			c := strings.ReplaceAll(expr, "$mult", fmt.Sprint(mult))
			oracle := `
	if n <= 0 || err != nil || v < -2147483648 || v > 2147483647 {
		return
	}
	if tm.Unix() != v*86400 || tm.Nanosecond() != 0 {
		t.Logf("REPLAY-CONFIRMED: day count %d decoded to %v (unix %d), the date type defines unix %d", v, tm, tm.Unix(), v*86400)
		t.Fail()
	}`
			if long {
				oracle = fmt.Sprintf(`
	const mult = int64(%d)
	if n <= 0 || err != nil || v <= -9000000000000 || v >= 9000000000000 {
		return
	}
	ns := v * mult
	if tm.Unix() != floorDiv(ns, 1000000000) || int64(tm.Nanosecond()) != ns-floorDiv(ns, 1000000000)*1000000000 {
		t.Logf("REPLAY-CONFIRMED: stored %%d (unit %%d ns) decoded to %%v, the type defines unix nanoseconds %%d", v, mult, tm, ns)
		t.Fail()
	}`, mult)
			}
			return timeReplayPrelude + fmt.Sprintf(`
func TestGovcReplay(t *testing.T) {
	data := %s[%d:]
	defer func() {
		if x := recover(); x != nil {
			t.Logf("REPLAY-CONFIRMED: %%s panicked on %%v: %%v", %q, data, x)
			t.Fail()
		}
	}()
	r := avro.NewReadBuf(data)
	var tm stdtime.Time
	err := %s.Read(r, unsafe.Pointer(&tm))
	v, n := binary.Varint(data)%s
}
`, buf, int64(vals["rb.i"]), o.Func, c, oracle)
		}}
}

// harness for DateCodec.Write / LongCodec.Write: the instant comes from the model's values of tsec(t), tnsec(t); the
// oracle is floor(instant / resolution) (C19)
func timeWriteHarness(expr string, long bool) *replayHarness {
	return &replayHarness{pkg: "time", pkgDir: "time",
		want: func(e *Engine, o *Obligation) []namedTerm {
			secs := findApps(o, "ghost:tsec")
			if len(secs) == 0 {
				return nil
			}
			out := []namedTerm{{"t.sec", secs[0]}}
			for _, ns := range findApps(o, "ghost:tnsec") {
				if len(ns.Args) == len(secs[0].Args) && len(ns.Args) > 0 && ns.Args[0] == secs[0].Args[0] {
					out = append(out, namedTerm{"t.nsec", ns})
					break
				}
			}
			return append(out, multTerm(e, o)...)
		},
		gen: func(vals map[string]uint64, o *Obligation) string {
			sec, nsec, mult := int64(vals["t.sec"]), int64(vals["t.nsec"]), int64(vals["c.mult"])
			lim := int64(1) << 40
			if long {
				lim = 9000000000
			}
			if nsec < 0 || nsec >= 1000000000 || sec <= -lim || sec >= lim {
				return ""
			}
			if long && mult != 1 && mult != 1000 && mult != 1000000 {
				return ""
			}
			c := strings.ReplaceAll(expr, "$mult", fmt.Sprint(mult))
			want := "floorDiv(sec, 86400)"
			if long {
				want = fmt.Sprintf("floorDiv(sec*1000000000+nsec, %d)", mult)
			}
			return timeReplayPrelude + fmt.Sprintf(`
func TestGovcReplay(t *testing.T) {
	sec, nsec := int64(%d), int64(%d)
	_ = nsec
	tm := stdtime.Unix(sec, nsec).UTC()
	defer func() {
		if x := recover(); x != nil {
			t.Logf("REPLAY-CONFIRMED: %%s panicked on %%v: %%v", %q, tm, x)
			t.Fail()
		}
	}()
	w := avro.NewWriteBuf(nil)
	%s.Write(w, unsafe.Pointer(&tm))
	got, n := binary.Varint(w.Bytes())
	want := %s
	if n != len(w.Bytes()) || got != want {
		t.Logf("REPLAY-CONFIRMED: %%s stored %%d for %%v (unix %%d s %%d ns); the logical type defines %%d", %q, got, tm, sec, nsec, want)
		t.Fail()
	}
}
`, sec, nsec, o.Func, c, want, o.Func)
		}}
}

func harnessKey(fn string) string {
	if i := strings.Index(fn, " as "); i >= 0 {
		fn = fn[:i]
	}
	if i := strings.Index(fn, " [view"); i >= 0 {
		fn = fn[:i]
	}
	return fn
}

// evalTerms asks a solver for the values of terms in a model of the failed obligation.
func (e *Engine) evalTerms(o *Obligation, nts []namedTerm, extra ...*Term) (map[string]uint64, bool) {
	var terms []*Term
	for _, nt := range nts {
		terms = append(terms, nt.t)
	}
	hyps := append(e.PrepareQF(o), extra...)
	script := e.tb.Script(hyps, nil, true, false, terms...)
	var keep []string
	for _, l := range strings.Split(script, "\n") {
		if strings.HasPrefix(l, "(assert (forall ((d (Array") {
			continue
		}
		keep = append(keep, l)
	}
	dir, err := os.MkdirTemp("", "govc-replay")
	if err != nil {
		return nil, false
	}
	defer os.RemoveAll(dir)
	f := filepath.Join(dir, "values.smt2")
	os.WriteFile(f, []byte(strings.Join(keep, "\n")), 0o644)
	out, _ := exec.Command("z3-new", "-smt2", "-T:30", f).CombinedOutput()
	lines := strings.Split(string(out), "\n")
	if len(lines) == 0 || strings.TrimSpace(lines[0]) != "sat" {
		return nil, false
	}
	vals := map[string]uint64{}
	i := 0
	for _, l := range lines[1:] {
		l = strings.TrimSpace(l)
		if l == "" || i >= len(nts) {
			continue
		}
		fs := strings.Fields(strings.TrimRight(l, ")"))
		if len(fs) == 0 {
			continue
		}
		tok := fs[len(fs)-1]
		var v uint64
		switch {
		case strings.HasPrefix(tok, "#x"):
			v, _ = strconv.ParseUint(tok[2:], 16, 64)
		case strings.HasPrefix(tok, "#b"):
			v, _ = strconv.ParseUint(tok[2:], 2, 64)
		default:
			i++
			continue
		}
		vals[nts[i].name] = v
		i++
	}
	return vals, true
}

func (e *Engine) tryReplay(vdir, prop string, o *Obligation, replayFile string) bool {
	key := harnessKey(o.Func)
	if rel, err := filepath.Rel(e.repoDir, filepath.Dir(o.Pos.Filename)); err == nil && rel != "." && rel != "" {
		key = rel + ":" + key // same method names exist in several packages (StringCodec.Read)
	}
	h := replayHarnesses[key]
	note := func(k string, v interface{}) {
		b, err := os.ReadFile(replayFile)
		if err != nil {
			return
		}
		var m map[string]interface{}
		if json.Unmarshal(b, &m) != nil {
			return
		}
		m[k] = v
		nb, _ := json.MarshalIndent(m, "", " ")
		os.WriteFile(replayFile, nb, 0o644)
	}
	if h == nil {
		note("replay", "no replay harness for this function: the obligation and the solver output above are the report")
		return false
	}
	nts := h.want(e, o)
	if nts == nil {
		note("replay", "inputs of the model could not be located")
		return false
	}
	// prefer a counter-model with a buffer the harness can write down
	var small []*Term
	for _, nt := range nts {
		if nt.name == "rb.len" {
			small = append(small, e.tb.SLe(nt.t, e.tb.BVI(64, replayBytes)), e.tb.SLe(e.tb.BVI(64, 0), nt.t))
		}
	}
	vals, ok := e.evalTerms(o, nts, small...)
	if !ok {
		vals, ok = e.evalTerms(o, nts)
	}
	if !ok {
		note("replay", "no concrete model of the instantiated query within 30 s")
		return false
	}
	sv := map[string]int64{}
	for k, v := range vals {
		if !strings.HasPrefix(k, "rb.b") {
			sv[k] = int64(v)
		}
	}
	note("replay_model_values", sv)
	if os.Getenv("GOVC_REPLAYDBG") != "" {
		var ns []string
		for _, l := range o.Inputs {
			ns = append(ns, l.Name)
		}
		note("replay_input_names", ns)
	}
	src := h.gen(vals, o)
	if src == "" {
		note("replay", "the model is outside what the harness can materialise (buffer longer than 48 bytes, or values outside the harness range); not replayed")
		return false
	}
	dir, err := os.MkdirTemp("", "govc-replay")
	if err != nil {
		return false
	}
	defer os.RemoveAll(dir)
	testFile := filepath.Join(dir, "govc_replay_test.go")
	os.WriteFile(testFile, []byte(src), 0o644)
	target := filepath.Join(e.repoDir, h.pkgDir, "zz_govc_replay_test.go")
	ov, _ := json.Marshal(map[string]interface{}{"Replace": map[string]string{target: testFile}})
	ovFile := filepath.Join(dir, "overlay.json")
	os.WriteFile(ovFile, ov, 0o644)
	cmd := exec.Command("go", "test", "-overlay", ovFile, "-vet=off", "-count=1", "-timeout", "60s", "-run", "TestGovcReplay$", "-v", ".")
	cmd.Dir = filepath.Join(e.repoDir, h.pkgDir)
	cmd.Env = append(os.Environ(), "GOFLAGS=-mod=mod", "GOPROXY=off")
	out, _ := cmd.CombinedOutput()
	confirmed := strings.Contains(string(out), "REPLAY-CONFIRMED")
	note("replay_test_source", src)
	outS := string(out)
	if len(outS) > 4000 {
		outS = outS[:4000]
	}
	note("replay_output", outS)
	if confirmed {
		note("replay", "confirmed: the real code misbehaves on the input of the counter-model (see replay_output)")
	} else {
		note("replay", "the real code did not misbehave on the candidate input taken from the (instantiated) counter-model")
	}
	return confirmed
}
