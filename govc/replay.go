package main

// Replay of solver counterexamples against the real code (go test -overlay). Filled in per function class.

func (e *Engine) tryReplay(vdir, prop string, o *Obligation, replayFile string) bool {
	return false
}
