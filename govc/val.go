package main

// Symbolic values and the symbolic state (heap model).

import (
	"fmt"
	"go/types"
	"sort"
	"strings"

	"golang.org/x/tools/go/ssa"
)

type Val interface{}

// Scalar: ints (BV), bool (Bool), floats (bit pattern BV), pointers/uintptr/map/func/chan handles (BV64)
type Scalar struct{ T *Term }

// SliceV: []byte and string. Content lives in byte objects: BH[Base][Off+k]. Cap==nil for strings.
type SliceV struct {
	Base, Off, Len, Cap *Term
	Raw                 bool  // view onto raw memory M (Base==0, Off = absolute address)
	Arr                 *Term // detached content (ghost byte strings recorded in traces); overrides BH[Base]
}

// PSlice: slice of non-byte elements: pointer into typed heap.
type PSlice struct {
	Ptr, Len, Cap *Term
	Elem          types.Type
}

type StructV struct {
	T      types.Type
	Fields []Val
}

type IfaceV struct{ Tag, Data *Term }

type TupleV struct{ Elems []Val }

// ArrV: value of type [N]byte
type ArrV struct {
	Arr *Term
	N   int64
}

type ptrKind int

const (
	PObj     ptrKind = iota // typed heap object of type T at Addr (struct: fields keyed by struct address; else cell)
	PField                  // scalar/slice/iface field Idx of struct ST at struct address Addr
	PRaw                    // raw memory address
	PLocal                  // non-escaping local cell
	PByteObj                // pointer to [N]byte object (Base)
	PByteEl                 // pointer to byte Base[Off]
	PGlobal
)

type PtrV struct {
	Kind  ptrKind
	Addr  *Term
	T     types.Type // pointee type
	ST    *types.Struct
	STN   string // struct type name for keys
	Idx   int
	Alloc *ssa.Alloc
	Path  []int
	Base  *Term
	Off   *Term
	N     int64
	Glob  *ssa.Global
}

// ---------------- state ----------------

type State struct {
	PC       *Term
	Heap     map[string]*Term // typed heap leaf arrays by key
	M        *Term            // raw bytes
	SB, SO   *Term            // shadow of slice headers stored in raw memory (base, off)
	BH       *Term            // byte objects
	BA       *Term            // allocated byte-object bases (Array BV64 Bool)
	RA       *Term            // allocated raw addresses
	Locals   map[*ssa.Alloc]Val
	Ghost    map[string]*Term
	MapVer   map[string]*Term // map contents version per map type key
	dead     bool
	havocAll bool
}

func (s *State) Clone() *State {
	n := *s
	n.Heap = make(map[string]*Term, len(s.Heap))
	for k, v := range s.Heap {
		n.Heap[k] = v
	}
	n.Locals = make(map[*ssa.Alloc]Val, len(s.Locals))
	for k, v := range s.Locals {
		n.Locals[k] = v
	}
	n.Ghost = make(map[string]*Term, len(s.Ghost))
	for k, v := range s.Ghost {
		n.Ghost[k] = v
	}
	n.MapVer = make(map[string]*Term, len(s.MapVer))
	for k, v := range s.MapVer {
		n.MapVer[k] = v
	}
	return &n
}

// heapArr returns the current array for a typed-heap leaf, creating the initial symbol lazily.
func (e *Engine) heapArr(s *State, key string, elem *Sort) *Term {
	if a, ok := s.Heap[key]; ok {
		return a
	}
	a := e.tb.Var("H0:"+key, ArrSort(BV64, elem))
	// initial arrays are shared across all states of the same function run: record in root
	s.Heap[key] = a
	e.initHeap[key] = a
	return a
}

func (e *Engine) ghost(s *State, key string, sort_ *Sort) *Term {
	if a, ok := s.Ghost[key]; ok {
		return a
	}
	a := e.tb.Var("G0:"+key, sort_)
	s.Ghost[key] = a
	return a
}

// ---------------- type helpers ----------------

func (e *Engine) sizeof(t types.Type) int64 { return e.sizes.Sizeof(t) }

func isByteSlice(t types.Type) bool {
	if s, ok := t.Underlying().(*types.Slice); ok {
		if b, ok := s.Elem().Underlying().(*types.Basic); ok {
			return b.Kind() == types.Uint8
		}
	}
	return false
}

func isString(t types.Type) bool {
	b, ok := t.Underlying().(*types.Basic)
	return ok && b.Info()&types.IsString != 0
}

func isByteArray(t types.Type) (int64, bool) {
	if a, ok := t.Underlying().(*types.Array); ok {
		if b, ok := a.Elem().Underlying().(*types.Basic); ok && b.Kind() == types.Uint8 {
			return a.Len(), true
		}
	}
	return 0, false
}

func basicInfo(t types.Type) (w int, signed bool, ok bool) {
	b, isB := t.Underlying().(*types.Basic)
	if !isB {
		return 0, false, false
	}
	switch b.Kind() {
	case types.Int8:
		return 8, true, true
	case types.Int16:
		return 16, true, true
	case types.Int32:
		return 32, true, true
	case types.Int64, types.Int, types.UntypedInt, types.UntypedRune:
		return 64, true, true
	case types.Uint8:
		return 8, false, true
	case types.Uint16:
		return 16, false, true
	case types.Uint32:
		return 32, false, true
	case types.Uint64, types.Uint, types.Uintptr, types.UnsafePointer:
		return 64, false, true
	case types.Float32:
		return 32, false, true
	case types.Float64, types.UntypedFloat:
		return 64, false, true
	}
	return 0, false, false
}

func isFloat(t types.Type) bool {
	b, ok := t.Underlying().(*types.Basic)
	return ok && b.Info()&types.IsFloat != 0
}

func isBool(t types.Type) bool {
	b, ok := t.Underlying().(*types.Basic)
	return ok && b.Info()&types.IsBoolean != 0
}

func isPointerLike(t types.Type) bool {
	switch u := t.Underlying().(type) {
	case *types.Pointer, *types.Map, *types.Chan, *types.Signature:
		return true
	case *types.Basic:
		return u.Kind() == types.UnsafePointer || u.Kind() == types.Uintptr
	}
	return false
}

// typeKey is a stable readable key for a type (used in heap keys and tags).
func typeKey(t types.Type) string {
	t = types.Unalias(t) // FloatCodec = floatCodec[float32]: the dynamic type is the aliased one
	return types.TypeString(t, func(p *types.Package) string { return p.Path() })
}

// freshVal creates an unconstrained symbolic value of Go type t.
func (e *Engine) freshVal(t types.Type, prefix string) Val {
	tb := e.tb
	switch u := t.Underlying().(type) {
	case *types.Basic:
		if isBool(t) {
			return Scalar{tb.Fresh(prefix, BoolSort)}
		}
		if isString(t) {
			return SliceV{Base: tb.Fresh(prefix+".base", BV64), Off: tb.Fresh(prefix+".off", BV64), Len: tb.Fresh(prefix+".len", BV64)}
		}
		if w, _, ok := basicInfo(t); ok {
			return Scalar{tb.Fresh(prefix, BV(w))}
		}
		if u.Kind() == types.UntypedNil {
			return Scalar{tb.BVI(64, 0)}
		}
		panic(unsupported("basic type " + t.String()))
	case *types.Pointer, *types.Map, *types.Chan, *types.Signature:
		return Scalar{tb.Fresh(prefix, BV64)}
	case *types.Slice:
		if isByteSlice(t) {
			return SliceV{Base: tb.Fresh(prefix+".base", BV64), Off: tb.Fresh(prefix+".off", BV64), Len: tb.Fresh(prefix+".len", BV64), Cap: tb.Fresh(prefix+".cap", BV64)}
		}
		return PSlice{Ptr: tb.Fresh(prefix+".ptr", BV64), Len: tb.Fresh(prefix+".len", BV64), Cap: tb.Fresh(prefix+".cap", BV64), Elem: u.Elem()}
	case *types.Struct:
		sv := StructV{T: t}
		for i := 0; i < u.NumFields(); i++ {
			sv.Fields = append(sv.Fields, e.freshVal(u.Field(i).Type(), prefix+"."+u.Field(i).Name()))
		}
		return sv
	case *types.Interface:
		return IfaceV{Tag: tb.Fresh(prefix+".tag", BV64), Data: tb.Fresh(prefix+".data", BV64)}
	case *types.Tuple:
		tv := TupleV{}
		for i := 0; i < u.Len(); i++ {
			tv.Elems = append(tv.Elems, e.freshVal(u.At(i).Type(), fmt.Sprintf("%s.%d", prefix, i)))
		}
		return tv
	case *types.Array:
		if n, ok := isByteArray(t); ok {
			return ArrV{Arr: tb.Fresh(prefix+".arr", ByteAr), N: n}
		}
		// small arrays of other types: struct-like
		if u.Len() <= 16 {
			sv := StructV{T: t}
			for i := int64(0); i < u.Len(); i++ {
				sv.Fields = append(sv.Fields, e.freshVal(u.Elem(), fmt.Sprintf("%s.%d", prefix, i)))
			}
			return sv
		}
	}
	panic(unsupported("type " + t.String()))
}

// zeroVal creates the zero value of Go type t.
func (e *Engine) zeroVal(t types.Type) Val {
	tb := e.tb
	z := tb.BVI(64, 0)
	switch u := t.Underlying().(type) {
	case *types.Basic:
		if isBool(t) {
			return Scalar{tb.False()}
		}
		if isString(t) {
			return SliceV{Base: z, Off: z, Len: z}
		}
		if w, _, ok := basicInfo(t); ok {
			return Scalar{tb.BVI(w, 0)}
		}
		if u.Kind() == types.UntypedNil {
			return Scalar{z}
		}
	case *types.Pointer, *types.Map, *types.Chan, *types.Signature:
		return Scalar{z}
	case *types.Slice:
		if isByteSlice(t) {
			return SliceV{Base: z, Off: z, Len: z, Cap: z}
		}
		return PSlice{Ptr: z, Len: z, Cap: z, Elem: u.Elem()}
	case *types.Struct:
		sv := StructV{T: t}
		for i := 0; i < u.NumFields(); i++ {
			sv.Fields = append(sv.Fields, e.zeroVal(u.Field(i).Type()))
		}
		return sv
	case *types.Interface:
		return IfaceV{Tag: z, Data: z}
	case *types.Array:
		if n, ok := isByteArray(t); ok {
			return ArrV{Arr: tb.App("constarr", ByteAr, tb.BVI(8, 0)), N: n}
		}
		if u.Len() <= 16 {
			sv := StructV{T: t}
			for i := int64(0); i < u.Len(); i++ {
				sv.Fields = append(sv.Fields, e.zeroVal(u.Elem()))
			}
			return sv
		}
	}
	panic(unsupported("zero of type " + t.String()))
}

type unsupportedErr struct{ msg string }

func (u unsupportedErr) Error() string { return "unsupported: " + u.msg }
func unsupported(msg string) error     { return unsupportedErr{msg} }

// leaves flattens a Val into named leaf terms (in a stable order).
func leaves(v Val, prefix string, out *[]leaf) {
	switch x := v.(type) {
	case Scalar:
		*out = append(*out, leaf{prefix, x.T})
	case SliceV:
		*out = append(*out, leaf{prefix + ".base", x.Base}, leaf{prefix + ".off", x.Off}, leaf{prefix + ".len", x.Len})
		if x.Cap != nil {
			*out = append(*out, leaf{prefix + ".cap", x.Cap})
		}
	case PSlice:
		*out = append(*out, leaf{prefix + ".ptr", x.Ptr}, leaf{prefix + ".len", x.Len}, leaf{prefix + ".cap", x.Cap})
	case IfaceV:
		*out = append(*out, leaf{prefix + ".tag", x.Tag}, leaf{prefix + ".data", x.Data})
	case StructV:
		for i, f := range x.Fields {
			leaves(f, fmt.Sprintf("%s.%d", prefix, i), out)
		}
	case TupleV:
		for i, f := range x.Elems {
			leaves(f, fmt.Sprintf("%s.%d", prefix, i), out)
		}
	case ArrV:
		*out = append(*out, leaf{prefix + ".arr", x.Arr})
	case PtrV:
		if x.Addr != nil {
			*out = append(*out, leaf{prefix, x.Addr})
		}
	case nil:
	default:
		panic(fmt.Sprintf("leaves: unexpected %T", v))
	}
}

type leaf struct {
	Name string
	T    *Term
}

// mapVal rebuilds a Val of the same shape applying f to every leaf term.
func mapVal(v Val, f func(*Term) *Term) Val {
	switch x := v.(type) {
	case Scalar:
		return Scalar{f(x.T)}
	case SliceV:
		r := SliceV{Base: f(x.Base), Off: f(x.Off), Len: f(x.Len), Raw: x.Raw, Arr: x.Arr}
		if x.Cap != nil {
			r.Cap = f(x.Cap)
		}
		return r
	case PSlice:
		return PSlice{Ptr: f(x.Ptr), Len: f(x.Len), Cap: f(x.Cap), Elem: x.Elem}
	case IfaceV:
		return IfaceV{Tag: f(x.Tag), Data: f(x.Data)}
	case StructV:
		r := StructV{T: x.T, Fields: make([]Val, len(x.Fields))}
		for i, fl := range x.Fields {
			r.Fields[i] = mapVal(fl, f)
		}
		return r
	case TupleV:
		r := TupleV{Elems: make([]Val, len(x.Elems))}
		for i, fl := range x.Elems {
			r.Elems[i] = mapVal(fl, f)
		}
		return r
	case ArrV:
		return ArrV{Arr: f(x.Arr), N: x.N}
	case PtrV:
		r := x
		if x.Addr != nil {
			r.Addr = f(x.Addr)
		}
		if x.Base != nil {
			r.Base = f(x.Base)
		}
		if x.Off != nil {
			r.Off = f(x.Off)
		}
		return r
	}
	return v
}

// zipVal combines two values of identical shape leaf-wise.
func (e *Engine) zipVal(a, b Val, f func(x, y *Term) *Term) Val {
	switch x := a.(type) {
	case Scalar:
		y, ok := b.(Scalar)
		if !ok {
			if p, ok2 := b.(PtrV); ok2 && p.Addr != nil {
				return Scalar{f(x.T, e.ptrNum(p))}
			}
			panic(fmt.Sprintf("zipVal shape mismatch %T vs %T", a, b))
		}
		return Scalar{f(x.T, y.T)}
	case SliceV:
		y := b.(SliceV)
		if x.Raw != y.Raw {
			panic(unsupported("merging raw-view slice with ordinary slice"))
		}
		r := SliceV{Base: f(x.Base, y.Base), Off: f(x.Off, y.Off), Len: f(x.Len, y.Len), Raw: x.Raw}
		if x.Cap != nil && y.Cap != nil {
			r.Cap = f(x.Cap, y.Cap)
		}
		if x.Arr != nil && y.Arr != nil {
			// two ghost byte strings: the detached content is merged as well (a mixed merge loses the content, which
			// then reads as unconstrained bytes: incomplete, never unsound)
			if x.Arr == y.Arr {
				r.Arr = x.Arr
			} else {
				r.Arr = f(x.Arr, y.Arr)
			}
		}
		return r
	case PSlice:
		y := b.(PSlice)
		return PSlice{Ptr: f(x.Ptr, y.Ptr), Len: f(x.Len, y.Len), Cap: f(x.Cap, y.Cap), Elem: x.Elem}
	case IfaceV:
		y := b.(IfaceV)
		return IfaceV{Tag: f(x.Tag, y.Tag), Data: f(x.Data, y.Data)}
	case StructV:
		y := b.(StructV)
		r := StructV{T: x.T, Fields: make([]Val, len(x.Fields))}
		for i := range x.Fields {
			r.Fields[i] = e.zipVal(x.Fields[i], y.Fields[i], f)
		}
		return r
	case TupleV:
		y := b.(TupleV)
		r := TupleV{Elems: make([]Val, len(x.Elems))}
		for i := range x.Elems {
			r.Elems[i] = e.zipVal(x.Elems[i], y.Elems[i], f)
		}
		return r
	case ArrV:
		y := b.(ArrV)
		return ArrV{Arr: f(x.Arr, y.Arr), N: x.N}
	case PtrV:
		switch y := b.(type) {
		case PtrV:
			if x.Kind == y.Kind && x.Addr != nil && y.Addr != nil && (x.Kind == PObj || x.Kind == PRaw) {
				r := x
				r.Addr = f(x.Addr, y.Addr)
				return r
			}
			if x.Kind == y.Kind && x.Kind == PLocal && x.Alloc == y.Alloc {
				return x
			}
			if x.Kind == y.Kind && x.Kind == PByteEl {
				r := x
				r.Base = f(x.Base, y.Base)
				r.Off = f(x.Off, y.Off)
				return r
			}
			return Scalar{f(e.ptrNum(x), e.ptrNum(y))}
		case Scalar:
			return Scalar{f(e.ptrNum(x), y.T)}
		}
	case nil:
		return nil
	}
	panic(fmt.Sprintf("zipVal: unexpected %T / %T", a, b))
}

func (e *Engine) iteVal(c *Term, a, b Val) Val {
	if c.IsTrue() {
		return a
	}
	if c.IsFalse() {
		return b
	}
	return e.zipVal(a, b, func(x, y *Term) *Term {
		if x == nil || y == nil {
			return nil
		}
		return e.tb.Ite(c, x, y)
	})
}

func (e *Engine) eqVal(a, b Val) *Term {
	var cs []*Term
	e.zipVal(a, b, func(x, y *Term) *Term {
		if x != nil && y != nil {
			cs = append(cs, e.tb.Eq(x, y))
		}
		return x
	})
	return e.tb.And(cs...)
}

// ptrNum gives the numeric address of a pointer value.
func (e *Engine) ptrNum(p PtrV) *Term {
	tb := e.tb
	switch p.Kind {
	case PObj, PRaw:
		return p.Addr
	case PField:
		off := e.sizes.Offsetsof(structFields(p.ST))[p.Idx]
		return tb.Add(p.Addr, tb.BVI(64, off))
	case PByteObj:
		return tb.App("addrof", BV64, p.Base)
	case PByteEl:
		return tb.Add(tb.App("addrof", BV64, p.Base), p.Off)
	case PGlobal:
		return e.gaddr(p.Glob)
	case PLocal:
		panic(unsupported("address of non-escaping local used as number"))
	}
	panic("ptrNum")
}

func structFields(st *types.Struct) []*types.Var {
	fs := make([]*types.Var, st.NumFields())
	for i := range fs {
		fs[i] = st.Field(i)
	}
	return fs
}

// merge states at a join; conds[i] is the edge condition (full path condition) of state i.
func (e *Engine) mergeStates(sts []*State) *State {
	if len(sts) == 1 {
		return sts[0].Clone()
	}
	tb := e.tb
	out := sts[len(sts)-1].Clone()
	var pcs []*Term
	for _, s := range sts {
		pcs = append(pcs, s.PC)
	}
	out.PC = tb.Or(pcs...)
	mt := func(get func(s *State) *Term) *Term {
		r := get(sts[len(sts)-1])
		for i := len(sts) - 2; i >= 0; i-- {
			x := get(sts[i])
			if x == nil || r == nil {
				if x != nil {
					r = x
				}
				continue
			}
			r = tb.Ite(sts[i].PC, x, r)
		}
		return r
	}
	keys := map[string]bool{}
	for _, s := range sts {
		for k := range s.Heap {
			keys[k] = true
		}
	}
	var ks []string
	for k := range keys {
		ks = append(ks, k)
	}
	sort.Strings(ks)
	for _, k := range ks {
		k := k
		out.Heap[k] = mt(func(s *State) *Term {
			if a, ok := s.Heap[k]; ok {
				return a
			}
			return e.initHeap[k]
		})
	}
	out.M = mt(func(s *State) *Term { return s.M })
	out.SB = mt(func(s *State) *Term { return s.SB })
	out.SO = mt(func(s *State) *Term { return s.SO })
	out.BH = mt(func(s *State) *Term { return s.BH })
	out.BA = mt(func(s *State) *Term { return s.BA })
	out.RA = mt(func(s *State) *Term { return s.RA })
	gk := map[string]bool{}
	for _, s := range sts {
		for k := range s.Ghost {
			gk[k] = true
		}
	}
	for k := range gk {
		k := k
		out.Ghost[k] = mt(func(s *State) *Term {
			if a, ok := s.Ghost[k]; ok {
				return a
			}
			return e.tb.vars["G0:"+k]
		})
	}
	mk := map[string]bool{}
	for _, s := range sts {
		for k := range s.MapVer {
			mk[k] = true
		}
	}
	for k := range mk {
		k := k
		out.MapVer[k] = mt(func(s *State) *Term {
			if v := s.MapVer[k]; v != nil {
				return v
			}
			return e.tb.Var("MV0:"+k, BV64) // a path that never touched maps of this type still has the entry version
		})
	}
	// locals
	lk := map[*ssa.Alloc]bool{}
	for _, s := range sts {
		for k := range s.Locals {
			lk[k] = true
		}
	}
	for a := range lk {
		var r Val
		first := true
		for i := len(sts) - 1; i >= 0; i-- {
			v, ok := sts[i].Locals[a]
			if !ok {
				continue
			}
			if first {
				r = v
				first = false
			} else {
				r = e.iteVal(sts[i].PC, v, r)
			}
		}
		out.Locals[a] = r
	}
	return out
}

func describeVal(tb *TB, v Val) string {
	var ls []leaf
	leaves(v, "", &ls)
	var parts []string
	for _, l := range ls {
		parts = append(parts, l.Name+"="+tb.Show(l.T))
	}
	return strings.Join(parts, " ")
}

// gaddr: the address of a package-level variable (an uninterpreted constant per variable; distinct variables have
// distinct addresses).
func (e *Engine) gaddr(g *ssa.Global) *Term {
	t := e.tb.App("gaddr:"+g.String(), BV64)
	if e.gaddrs == nil {
		e.gaddrs = map[*Term]bool{}
	}
	if !e.gaddrs[t] {
		for o := range e.gaddrs {
			e.axioms = append(e.axioms, e.tb.Ne(t, o))
		}
		e.axioms = append(e.axioms, e.tb.Ne(t, e.tb.BVI(64, 0)))
		e.gaddrs[t] = true
	}
	return t
}
