package main

// The per-property check command used by MANIFEST.json.

import (
	"encoding/json"
	"flag"
	"fmt"
	"os"
	"os/exec"
	"path/filepath"
	"sort"
	"strconv"
	"strings"
	"time"

	"golang.org/x/tools/go/ssa"
)

var panicProps = map[string]bool{"C06": true, "C16": true, "C18": true}

type KnownFinding struct {
	Property   string `json:"property"`
	Obligation string `json:"obligation"` // exact obligation name, or prefix ending in '*'
	What       string `json:"what"`
	Witness    string `json:"witness"`
	Status     string `json:"status"` // open | fixed: <commit>
}

type propLevel struct {
	Level string
	Expl  string
}

func loadKnown(path string) []KnownFinding {
	b, err := os.ReadFile(path)
	if err != nil {
		return nil
	}
	var doc struct {
		Findings []KnownFinding `json:"findings"`
	}
	if err := json.Unmarshal(b, &doc); err != nil {
		fmt.Fprintf(os.Stderr, "known_findings.json: %v\n", err)
		os.Exit(2)
	}
	return doc.Findings
}

func matchKnown(kf KnownFinding, prop, obl string) bool {
	if kf.Property != prop || !strings.HasPrefix(kf.Status, "open") {
		return false
	}
	if strings.HasSuffix(kf.Obligation, "*") {
		return strings.HasPrefix(obl, strings.TrimSuffix(kf.Obligation, "*"))
	}
	return kf.Obligation == obl
}

func cmdCheck(args []string) int {
	fs := flag.NewFlagSet("check", flag.ExitOnError)
	prop := fs.String("prop", "", "property id")
	tier := fs.String("tier", "quick", "quick|thorough")
	repo := fs.String("repo", "/repo", "repository")
	vdir := fs.String("verif", "/verif", "verif dir")
	verbose := fs.Bool("v", false, "verbose")
	only := fs.String("only", "", "only functions containing this substring (debug)")
	fs.Parse(args)
	if t := os.Getenv("VERIF_TIER"); t != "" && *tier == "" {
		*tier = t
	}
	seed := 0
	if s := os.Getenv("VERIF_SEED"); s != "" {
		seed, _ = strconv.Atoi(s)
	}
	t0 := time.Now()
	e, err := NewEngine(*repo, filepath.Join(*vdir, "spec"))
	if err != nil {
		fmt.Printf("ERROR loading %s: %v\n", *repo, err)
		// a tree that no longer loads cannot be checked: report as undecided violation of every obligation
		writeReplay(*vdir, *prop, "load", map[string]interface{}{"obligation": "load", "error": err.Error()})
		fmt.Printf("VIOLATION property=%s replay=%s no-failing-input-found\n", *prop, replayPath(*vdir, *prop, "load"))
		return 1
	}
	loadS := time.Since(t0).Seconds()

	// functions under contract for this property
	type target struct {
		fn  *ssa.Function
		c   *Contract
		key string
	}
	var targets []target
	var missing []string
	var keys []string
	for k := range e.specs.Contracts {
		keys = append(keys, k)
	}
	sort.Strings(keys)
	for _, k := range keys {
		c := e.specs.Contracts[k]
		if c.External || c.Trusted || !c.Props[*prop] {
			continue
		}
		if *only != "" && !strings.Contains(k, *only) {
			continue
		}
		fn := e.lookupFunc(c.Pkg, c.Key)
		if fn == nil {
			missing = append(missing, k)
			continue
		}
		fns := []*ssa.Function{fn}
		if c.Pkg != "" {
			if all := e.lookupFuncs(c.Pkg, c.Key); len(all) > 1 {
				fns = all
			}
		}
		for _, f := range fns {
			targets = append(targets, target{f, c, k})
		}
	}
	var results []*FnResult
	var allObls []*Obligation
	props := map[string]bool{*prop: true, "frame": true}
	for _, t := range targets {
		res := e.VerifyFunction(t.fn, t.c, panicProps[*prop], props)
		results = append(results, res)
		allObls = append(allObls, res.Obls...)
		for _, im := range t.c.Implements {
			key := im
			if !strings.Contains(im, "/") {
				key = t.c.Pkg + "." + im
			}
			ic := e.specs.Ifaces[key]
			if ic == nil || !ic.Props[*prop] {
				continue
			}
			res := e.VerifyFunctionAs(t.fn, t.c, panicProps[*prop], props, key)
			results = append(results, res)
			allObls = append(allObls, res.Obls...)
		}
	}
	// implementation-level views of functions whose main contract is trusted at call sites
	for _, v := range e.specs.Views {
		if !v.Props[*prop] {
			continue
		}
		if *only != "" && !strings.Contains(v.ViewOf, *only) {
			continue
		}
		fn := e.lookupFunc(v.Pkg, v.Key)
		if fn == nil {
			missing = append(missing, v.ViewOf+"#"+v.ViewName)
			continue
		}
		res := e.VerifyFunctionAs(fn, v, panicProps[*prop], props, "view:"+v.ViewName)
		results = append(results, res)
		allObls = append(allObls, res.Obls...)
	}
	if os.Getenv("GOVC_TIMING") != "" {
		fmt.Fprintf(os.Stderr, "generation: %.1fs since start\n", time.Since(t0).Seconds())
	}
	// obligations that are tagged for other properties only (e.g. the recursion measure of C15 inside a function
	// that is also part of C20) belong to those properties' checks
	{
		var keep []*Obligation
		for _, o := range allObls {
			ok := len(o.Tags) == 0
			for _, t := range o.Tags {
				if t == *prop || t == "frame" {
					ok = true
				}
			}
			if ok || o.Cover || o.Kind == "panic" || o.Kind == "dec" {
				keep = append(keep, o)
			}
		}
		allObls = keep
	}
	// lemmas
	lemObls, lemErr := e.lemmaObligations(*prop)
	allObls = append(allObls, lemObls...)

	cfg := SolveCfg{TimeoutS: 100, Dir: filepath.Join(*vdir, "work", *prop), Workers: 7, Seed: seed}
	if *tier == "thorough" {
		cfg.TimeoutS = 240
		cfg.All = true
		cfg.Workers = 8
	}
	knownEarly := loadKnown(filepath.Join(*vdir, "known_findings.json"))
	cfg.Short = func(name string) bool {
		for _, kf := range knownEarly {
			if matchKnown(kf, *prop, name) {
				return true
			}
		}
		return false
	}
	e.Solve(allObls, cfg)
	if os.Getenv("GOVC_KEEP") == "" {
		os.RemoveAll(cfg.Dir) // query files are only kept for debugging (GOVC_KEEP=1): disk space is limited
	}
	if os.Getenv("GOVC_TIMING") != "" {
		fmt.Fprintf(os.Stderr, "solved: %.1fs since start\n", time.Since(t0).Seconds())
		so := append([]*Obligation{}, allObls...)
		sort.Slice(so, func(i, j int) bool {
			a, b := 0.0, 0.0
			if so[i].Result != nil {
				a = so[i].Result.Seconds
			}
			if so[j].Result != nil {
				b = so[j].Result.Seconds
			}
			return a > b
		})
		for i := 0; i < len(so) && i < 12; i++ {
			if so[i].Result != nil {
				fmt.Fprintf(os.Stderr, "  slow %.1fs %s %s/%s\n", so[i].Result.Seconds, so[i].Name, so[i].Result.Solver, so[i].Result.Phase)
			}
		}
	}

	known := loadKnown(filepath.Join(*vdir, "known_findings.json"))
	violations := 0
	machinery := 0
	nObl, nDis := 0, 0
	nCross := 0
	bySolver := map[string]int{}
	solverSecs := 0.0
	var samples []string
	var knownHit []string
	var failures []string
	nReplays := 0
	report := func(o *Obligation, why string) {
		for _, kf := range known {
			if matchKnown(kf, *prop, o.Name) {
				fmt.Printf("KNOWN-FINDING: property=%s %s %s\n", *prop, o.Name, kf.What)
				knownHit = append(knownHit, o.Name)
				return
			}
		}
		violations++
		failures = append(failures, o.Name)
		rp := writeReplay(*vdir, *prop, o.Name, map[string]interface{}{
			"property": *prop, "obligation": o.Name, "function": o.Func, "kind": o.Kind, "clause": o.Text,
			"position": o.Pos.String(), "status": why, "solver_output": resultOutput(o), "model": resultModel(o),
			"inputs": modelInputs(e, o),
		})
		suffix := " no-failing-input-found"
		// a counter-model (of the query, or of its quantifier-instantiated weakening) is only a candidate input: it is
		// believed if, and only if, the real code misbehaves on it
		if o.Result != nil && (o.Result.Status == "sat" || o.Result.Model != "") && nReplays < 6 {
			nReplays++
			if ok := e.tryReplay(*vdir, *prop, o, rp); ok {
				suffix = ""
			}
		}
		fmt.Printf("VIOLATION property=%s replay=%s%s\n", *prop, rp, suffix)
		fmt.Printf("  obligation %s (%s) at %s: %s [%s]\n", o.Name, o.Kind, o.Pos, o.Text, why)
	}
	for _, o := range allObls {
		st := "none"
		if o.Result != nil {
			st = o.Result.Status
			solverSecs += o.Result.Seconds
		}
		if o.Cover {
			if st == "unsat" {
				machinery++
				fmt.Printf("ERROR vacuity: %s is unsatisfiable (%s)\n", o.Name, o.Text)
			}
			continue
		}
		nObl++
		if len(samples) < 12 {
			samples = append(samples, o.Name+" :: "+o.Text)
		}
		if st == "unsat" {
			agree := 0
			for _, v := range o.Result.All {
				if v == "unsat" {
					agree++
				}
			}
			if agree >= 2 {
				nCross++
			}
			nDis++
			bySolver[o.Result.Solver+"/"+o.Result.Phase]++
			continue
		}
		report(o, st)
	}
	// bounded stand-ins (labelled bounded, never counted as proved) for what the contracts leave trusted or assumed
	var bounded []map[string]interface{}
	if (*prop == "C05" || *prop == "C15") && *only == "" {
		b := runBoundedRecord(*repo, *vdir)
		bounded = append(bounded, b)
		if b["result"] != "pass" {
			violations++
			rp := writeReplay(*vdir, *prop, "bounded:buildRecordCodec+schemaForStruct", map[string]interface{}{"property": *prop, "obligation": "bounded stand-in for buildRecordCodec / schemaForStruct", "status": "the real code fails the bounded enumeration", "test": "/verif/bounded/record_bounded_test.go", "output": b["output"]})
			fmt.Printf("VIOLATION property=%s replay=%s\n", *prop, rp)
			fmt.Printf("  bounded stand-in (buildRecordCodec / schemaForStruct over enumerated struct types): %v\n", b["first_failure"])
		}
	}
	var unsup []string
	for _, r := range results {
		if r.Unsup != "" || r.Err != "" {
			msg := r.Unsup
			if msg == "" {
				msg = r.Err
			}
			unsup = append(unsup, r.Func+": "+msg)
			violations++
			name := r.Func + ":translate"
			rp := writeReplay(*vdir, *prop, name, map[string]interface{}{"property": *prop, "obligation": name, "status": "function could not be translated, its obligations are undecided", "detail": msg})
			fmt.Printf("VIOLATION property=%s replay=%s no-failing-input-found\n", *prop, rp)
			fmt.Printf("  %s: %s\n", r.Func, msg)
		}
	}
	for _, m := range missing {
		violations++
		name := m + ":missing"
		rp := writeReplay(*vdir, *prop, name, map[string]interface{}{"property": *prop, "obligation": name, "status": "function under contract no longer exists; its obligations are undecided"})
		fmt.Printf("VIOLATION property=%s replay=%s no-failing-input-found\n", *prop, rp)
		fmt.Printf("  contract target %s not found in the tree\n", m)
	}
	if lemErr != "" {
		machinery++
		fmt.Printf("ERROR lemma: %s\n", lemErr)
	}
	if nObl == 0 {
		machinery++
		fmt.Printf("ERROR: no obligations generated for %s\n", *prop)
	}
	// evidence
	var fnNames []string
	notes := map[string]bool{}
	for _, r := range results {
		fnNames = append(fnNames, r.Func)
		for _, n := range r.Notes {
			notes[n] = true
		}
	}
	var trusted []string
	for k := range e.usedExt {
		trusted = append(trusted, "assumed contract: "+k)
		if strings.HasSuffix(k, "avro.buildRecordCodec") {
			trusted = append(trusted, "SCOPE RESTRICTION of the proof of buildRecordCodec (its postcondition is proved under the hypothesis distinctNames(schema) and stays an [assume] clause otherwise): record schemas with pairwise distinct field names (as the Avro specification requires). With a repeated name two schema fields decode into the same struct field, so the 'present fields occupy disjoint ranges' and 'destination still zero' parts of the contract do not hold; the real code's behaviour there (second value merged into / overwriting the first, nothing outside the field touched) is exercised only by the bounded stand-in.")
		}
	}
	for _, g := range e.specs.Globals {
		trusted = append(trusted, "assumed global fact (established by init, never reassigned): "+g.Text)
	}
	for k := range e.usedAxioms {
		switch {
		case strings.HasPrefix(k, "assumed postcondition"):
			trusted = append(trusted, "ASSUMED (not checked) "+k)
		case k == "block_size_exact" || k == "mblock_size_exact":
			trusted = append(trusted, "INPUT ASSUMPTION (axiom "+k+"): a declared array/map block byte size equals the size of the block's items")
		case k == "kind_sizes":
			trusted = append(trusted, "ASSUMED facts about the Go implementation (axiom kind_sizes): gc/amd64 sizes of the reflect kinds; every Go type involved is smaller than 4 MiB")
		case k == "struct_layout" || k == "struct_layout_all":
			trusted = append(trusted, "ASSUMED facts about the Go implementation (axiom "+k+"): gc layout of struct types as seen through reflect: every field lies inside the struct, fields are laid out in declaration order without overlap, field types are smaller than 2^40 bytes")
		case k == "cutidx_def" || k == "cutidx_first":
			trusted = append(trusted, "ASSUMED semantics of strings.Cut with a one-byte separator (axiom "+k+"): the cut position is the index of the first separator byte, or the length when there is none")
		case k == "tdepth_bounds":
			trusted = append(trusted, "ghost measure bound (axiom tdepth_bounds): the nesting-depth measure of a type is a non-negative number below 2^30")
		case strings.HasSuffix(k, "_unfold") || strings.HasSuffix(k, "_def"):
			trusted = append(trusted, "ghost definition (unfolding of a recursive specification function, instantiated only by explicit 'uses' clauses): "+k)
		default:
			trusted = append(trusted, "arithmetic axiom schema about 64-bit multiplication / varint extents (instantiated only by explicit 'uses'/'apply' clauses; true of the operation it abstracts): "+k)
		}
	}
	sort.Strings(trusted)
	trusted = append(trusted, globalTrusted...)
	var assumptions []string
	for n := range notes {
		assumptions = append(assumptions, n)
	}
	sort.Strings(assumptions)
	assumptions = append(assumptions, globalAssumptions...)
	lv := propLevels[*prop]
	if lv.Level == "" {
		lv.Level = "proof"
	}
	cov := map[string]interface{}{
		// obligations listed as open known findings are reported separately (known_findings_reported) and are
		// not part of the proved set: the proof claim of this run covers the other obligations only
		"obligations": nObl - len(knownHit), "discharged": nDis,
		"obligations_open_as_known_findings": len(knownHit),
		"checker_cmd":                        fmt.Sprintf("/verif/bin/check %s --tier %s  (govc: go/ssa -> weakest-precondition VCs -> z3 4.8.12 | z3 5.1.0 | cvc5 1.0.3)", *prop, *tier),
		"trusted_base":                       trusted, "samples": samples, "functions_under_contract": fnNames,
		"discharged_by": bySolver, "solver_seconds_total": round2(solverSecs), "load_seconds": round2(loadS),
		"known_findings_reported": knownHit, "failed_obligations": failures, "untranslatable": unsup,
		"explanation":                      lv.Expl,
		"bounded_standins":                 bounded,
		"confirmed_by_two_or_more_solvers": nCross,
		"rule":                             "one SMT query per named obligation generated from the SSA of /repo's working tree; an obligation counts as discharged only if a solver answers unsat; obligations that fail and are listed in /verif/known_findings.json as open findings are counted under obligations_open_as_known_findings, not under obligations",
	}
	ev := map[string]interface{}{
		"property_id": *prop, "tier": *tier, "seed": seed, "level": lv.Level, "coverage": cov,
		"assumptions": assumptions, "wall_s": round2(time.Since(t0).Seconds()), "violations": violations,
	}
	// partial debugging runs (-only) and runs on a deliberately modified tree (GOVC_NO_EVIDENCE, set by the seed and
	// mutation scripts) must not overwrite the evidence of the real check
	if *only == "" && os.Getenv("GOVC_NO_EVIDENCE") == "" {
		os.MkdirAll(filepath.Join(*vdir, "evidence"), 0o755)
		b, _ := json.MarshalIndent(ev, "", " ")
		os.WriteFile(filepath.Join(*vdir, "evidence", *prop+".json"), append(b, '\n'), 0o644)
	}
	fmt.Printf("%s: %d functions, %d obligations, %d discharged, %d violations, %d known findings, %.1fs\n", *prop, len(results), nObl, nDis, violations, len(knownHit), time.Since(t0).Seconds())
	if *verbose {
		sorted := append([]*Obligation{}, allObls...)
		sort.Slice(sorted, func(i, j int) bool {
			a, b := 0.0, 0.0
			if sorted[i].Result != nil {
				a = sorted[i].Result.Seconds
			}
			if sorted[j].Result != nil {
				b = sorted[j].Result.Seconds
			}
			return a > b
		})
		for i := 0; i < 8 && i < len(sorted); i++ {
			if sorted[i].Result != nil {
				fmt.Printf("  slow: %.1fs %s [%s %s]\n", sorted[i].Result.Seconds, sorted[i].Name, sorted[i].Result.Solver, sorted[i].Result.Phase)
			}
		}
		for _, r := range results {
			printResult(e, r, false)
		}
	}
	if violations > 0 {
		return 1
	}
	if machinery > 0 {
		return 2
	}
	return 0
}

func round2(f float64) float64 { return float64(int(f*100+0.5)) / 100 }

func resultOutput(o *Obligation) string {
	if o.Result == nil {
		return ""
	}
	s := o.Result.Output
	if len(s) > 4000 {
		s = s[:4000]
	}
	return fmt.Sprintf("status=%s solver=%s phase=%s all=%v %s", o.Result.Status, o.Result.Solver, o.Result.Phase, o.Result.All, s)
}

func resultModel(o *Obligation) string {
	if o.Result == nil {
		return ""
	}
	s := o.Result.Model
	if len(s) > 20000 {
		s = s[:20000]
	}
	return s
}

func hasQuantHyps(o *Obligation) bool {
	qc := map[*Term]bool{}
	for _, h := range o.Hyps {
		if hasQuant(h, qc) {
			return true
		}
	}
	return hasQuant(o.Goal, qc)
}

func replayPath(vdir, prop, name string) string {
	return filepath.Join(vdir, "replays", prop, sanitize(name)+".json")
}

func writeReplay(vdir, prop, name string, doc map[string]interface{}) string {
	p := replayPath(vdir, prop, name)
	os.MkdirAll(filepath.Dir(p), 0o755)
	b, _ := json.MarshalIndent(doc, "", " ")
	os.WriteFile(p, append(b, '\n'), 0o644)
	return p
}

// lemmaObligations evaluates the lemmas tagged with prop.
func (e *Engine) lemmaObligations(prop string) ([]*Obligation, string) {
	var out []*Obligation
	errs := ""
	for _, l := range e.specs.Lemmas {
		has := false
		for _, t := range l.Tags {
			if t == prop {
				has = true
			}
		}
		if !has {
			continue
		}
		func() {
			defer func() {
				if x := recover(); x != nil {
					errs += fmt.Sprintf("lemma %s: %v; ", l.Name, x)
				}
			}()
			rt := &root{e: e, counters: map[string]int{}, notes: map[string]bool{}, lateGhost: map[string]bool{}}
			e.initHeap = map[string]*Term{}
			st := e.newEntryState()
			rt.entry = st
			r := &FnRun{root: rt, e: e, vals: map[ssa.Value]Val{}, names: map[string]ssa.Value{}}
			// a lemma is proved for an arbitrary pair of (current, old) states, so using it anywhere is sound
			cur := e.newEntryState()
			cur.M, cur.RA, cur.BA, cur.BH = e.tb.Var("Mcur", ByteAr), e.tb.Var("RAcur", BoolAr), e.tb.Var("BAcur", BoolAr), e.tb.Var("BHcur", ObjAr)
			cur.SB, cur.SO = e.tb.Var("SBcur", WordAr), e.tb.Var("SOcur", WordAr)
			env := r.newEnv(cur, st)
			for i, pn := range l.Params {
				pt, ok := specTypes[l.PTypes[i]]
				if !ok {
					panic(fmt.Sprintf("unknown lemma parameter type %s", l.PTypes[i]))
				}
				v := e.freshVal(pt, "l!"+pn)
				r.typeInvariant(v, pt)
				env.vars[pn] = CV{V: v, T: pt}
			}
			g := env.EvalBool(l.E)
			lemmaSplit = true
			pieces := e.splitGoal(g)
			lemmaSplit = false
			for i, pc := range pieces {
				n := "lemma:" + l.Name
				if i > 0 {
					n = fmt.Sprintf("%s.%d", n, i)
				}
				out = append(out, &Obligation{Name: n, Func: "lemma", Kind: "lemma", Hyps: append(append([]*Term{}, rt.facts...), pc.hyps...), Goal: pc.goal, Text: l.Text, Tags: l.Tags})
			}
		}()
	}
	return out, errs
}

var propLevels = map[string]propLevel{
	"C02": {"other", "per-function proof obligations (writer productions, Omit, header and block layout) discharged by SMT; their composition into 'an independent reader decodes identically' is a written argument (DESIGN.md), not machine checked"},
	"C12": {"other", "per-function proof obligations of a lock/ownership discipline (guards on the shared maps, lock balance, sync usage rules) discharged by SMT for all inputs and paths; interleavings are not explored, race freedom follows from the discipline by sync's contract (assumed)"},
	"C03": {"other", "per-function proof obligations (reader productions for every legal serialisation choice) discharged by SMT; the induction over codec trees to 'the datum's values' is a written argument (DESIGN.md), not machine checked"},
}

var globalTrusted = []string{
	"the VC generator govc itself (its encoding of go/ssa semantics for go1.24/amd64) and the SMT solvers",
	"go/ssa (x/tools v0.29.0) is a faithful lowering of the source the compiler builds",
}

var globalAssumptions = []string{
	"memory model: little-endian amd64 gc layout; typed heap (per-field arrays) and raw unsafe.Pointer memory are disjoint; allocation never fails; stack unbounded",
	"package-level variables are written only during package initialisation",
	"machine integers are fixed-width bit-vectors with Go wrap-around semantics (not idealised)",
}

func modelInputs(e *Engine, o *Obligation) map[string]string {
	if o.Result == nil || o.Result.Model == "" {
		return nil
	}
	m := parseModel(o.Result.Model)
	out := map[string]string{}
	for _, l := range o.Inputs {
		if l.T.Op == "var" {
			if v, ok := m[l.T.Name]; ok {
				out[l.Name] = v
			}
		}
	}
	return out
}

// parseModel extracts simple (define-fun name () sort value) bindings.
func parseModel(s string) map[string]string {
	out := map[string]string{}
	lines := strings.Split(s, "\n")
	for i := 0; i < len(lines); i++ {
		l := strings.TrimSpace(lines[i])
		if !strings.HasPrefix(l, "(define-fun ") {
			continue
		}
		rest := strings.TrimPrefix(l, "(define-fun ")
		name := ""
		if strings.HasPrefix(rest, "|") {
			j := strings.Index(rest[1:], "|")
			if j < 0 {
				continue
			}
			name = rest[1 : j+1]
			rest = rest[j+2:]
		} else {
			j := strings.Index(rest, " ")
			if j < 0 {
				continue
			}
			name = rest[:j]
			rest = rest[j:]
		}
		rest = strings.TrimSpace(rest)
		if !strings.HasPrefix(rest, "()") {
			continue
		}
		val := ""
		// value may be on this line or the next
		if k := strings.LastIndex(rest, ")"); k >= 0 && (strings.Contains(rest, "#x") || strings.Contains(rest, "#b") || strings.HasSuffix(rest, "true)") || strings.HasSuffix(rest, "false)")) {
			f := strings.Fields(strings.TrimSuffix(rest, ")"))
			val = f[len(f)-1]
		} else if i+1 < len(lines) {
			val = strings.TrimSuffix(strings.TrimSpace(lines[i+1]), ")")
		}
		if strings.HasPrefix(val, "#x") || strings.HasPrefix(val, "#b") || val == "true" || val == "false" {
			out[name] = val
		}
	}
	return out
}

// runBoundedRecord runs the bounded enumeration test for the trusted functions buildRecordCodec and schemaForStruct
// against the real code of the working tree (go test -overlay; nothing is written into the repository).
func runBoundedRecord(repo, vdir string) map[string]interface{} {
	res := map[string]interface{}{
		"functions": []string{"schemaForStruct (trusted by the proofs)", "buildRecordCodec (verified for record schemas with pairwise distinct field names; only the duplicate-name case rests on this stand-in)"},
		"label":     "BOUNDED (not a proof)",
		"bound":     "every struct type with 0..3 fields over 14 field kinds (incl. a type whose registered schema is already a union) and plain/omitempty/excluded tags (reflect.StructOf), its generated schema, its record codec, sampled projection pairs, and for each kind one record schema that names the field twice (decode between guard arrays)",
		"checks":    "schema fields = exported non-excluded Go fields in declaration order under their JSON names with the documented type mapping, deterministic; codec fields carry the offset of the struct field of that name, write at most the field's size, stay inside the struct and do not overlap; absent fields are skip-only",
	}
	dir, err := os.MkdirTemp("", "govc-bounded")
	if err != nil {
		res["result"] = "error"
		return res
	}
	defer os.RemoveAll(dir)
	ov, _ := json.Marshal(map[string]interface{}{"Replace": map[string]string{filepath.Join(repo, "zz_govc_bounded_test.go"): filepath.Join(vdir, "bounded", "record_bounded_test.go")}})
	ovf := filepath.Join(dir, "ov.json")
	os.WriteFile(ovf, ov, 0o644)
	cmd := exec.Command("go", "test", "-overlay", ovf, "-vet=off", "-count=1", "-timeout", "300s", "-run", "TestBoundedBuildRecordCodecAndSchemaForStruct$", "-v", ".")
	cmd.Dir = repo
	cmd.Env = append(os.Environ(), "GOFLAGS=-mod=mod", "GOPROXY=off")
	out, _ := cmd.CombinedOutput()
	o := string(out)
	if len(o) > 3000 {
		o = o[:3000]
	}
	res["output"] = o
	res["result"] = "fail"
	for _, l := range strings.Split(o, "\n") {
		if strings.Contains(l, "BOUNDED:") {
			res["cases"] = strings.TrimSpace(l[strings.Index(l, "BOUNDED:")+8:])
		}
		if strings.HasPrefix(l, "ok ") || strings.HasPrefix(l, "ok\t") {
			res["result"] = "pass"
		}
		if strings.Contains(l, "zz_govc_bounded_test.go") && res["first_failure"] == nil && !strings.Contains(l, "BOUNDED:") {
			res["first_failure"] = strings.TrimSpace(l)
		}
	}
	return res
}
