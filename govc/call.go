package main

// Calls: builtins, contracts, inlining; modifies/havoc; loops; function verification driver.

import (
	"fmt"
	"go/constant"
	"go/token"
	"go/types"
	"sort"
	"strings"

	"golang.org/x/tools/go/ssa"
)

const maxInlineDepth = 4

func (r *FnRun) execCall(st *State, x *ssa.Call) *State {
	if r.depth == 0 && r.c != nil {
		// `before Callee#k apply/assert`: evaluated in the state just before the call (its preconditions may need it)
		cname := calleeShort(&x.Call)
		occ := r.calleeCount[cname] + 1
		for _, ma := range r.c.Asserts {
			if !ma.Before || ma.Callee != cname || ma.N != occ {
				continue
			}
			env := r.rootEnvFor(st)
			env.preferNames = true
			det := fmt.Sprintf("before:%s.%d", ma.Callee, ma.N)
			if ma.Apply != nil {
				p, q := env.applyLemma(ma.Apply, true)
				if ma.When != nil {
					c := env.EvalBool(ma.When)
					if p != nil {
						p = r.tb().Implies(c, p)
					}
					q = r.tb().Implies(c, q)
				}
				if p != nil {
					r.oblige(st, "apply", det+":"+ma.Apply.Name, p, x.Pos(), "premise of "+ma.Cl.Text, nil)
				}
				r.assume(st, q)
				continue
			}
			if !r.root.wantClause(ma.Cl) {
				continue
			}
			g := env.EvalBool(ma.Cl.E)
			r.oblige(st, "assert", det, g, x.Pos(), "intermediate assertion: "+ma.Cl.Text, ma.Cl.Tags)
			if !ma.CheckOnly {
				r.assume(st, g)
			}
		}
	}
	nst := r.execCallCommon(st, &x.Call, x, x.Pos())
	if r.depth == 0 && nst != nil {
		r.callOrdinal++
		cname := calleeShort(&x.Call)
		if r.calleeCount == nil {
			r.calleeCount = map[string]int{}
		}
		r.calleeCount[cname]++
		if r.c != nil {
			for _, ma := range r.c.Asserts {
				if ma.Before {
					continue
				}
				if ma.Callee == "" && ma.N != r.callOrdinal {
					continue
				}
				if ma.Callee != "" && (ma.Callee != cname || ma.N != r.calleeCount[cname]) {
					continue
				}
				if !r.root.wantClause(ma.Cl) {
					continue
				}
				// the DebugRefs naming the call's result follow the call instruction: apply them first
				blk := x.Block()
				for i, ins := range blk.Instrs {
					if ins != ssa.Instruction(x) {
						continue
					}
					for _, nx := range blk.Instrs[i+1:] {
						dr, ok := nx.(*ssa.DebugRef)
						if !ok {
							break
						}
						if dr.Object() != nil && !dr.IsAddr {
							r.names[dr.Object().Name()] = dr.X
						}
					}
				}
				env := r.rootEnvFor(nst)
				env.preferNames = true // source variables denote their current values
				det := fmt.Sprintf("call%d", ma.N)
				if ma.Callee != "" {
					det = fmt.Sprintf("%s.%d", ma.Callee, ma.N)
				}
				if ma.Apply != nil {
					p, q := env.applyLemma(ma.Apply, true)
					if ma.When != nil {
						c := env.EvalBool(ma.When)
						if p != nil {
							p = r.tb().Implies(c, p)
						}
						q = r.tb().Implies(c, q)
					}
					if p != nil {
						r.oblige(nst, "apply", det+":"+ma.Apply.Name, p, x.Pos(), "premise of "+ma.Cl.Text, nil)
					}
					r.assume(nst, q)
					continue
				}
				g := env.EvalBool(ma.Cl.E)
				r.oblige(nst, "assert", det, g, x.Pos(), "intermediate assertion: "+ma.Cl.Text, ma.Cl.Tags)
				if !ma.CheckOnly {
					r.assume(nst, g)
				}
			}
		}
	}
	return nst
}

func (r *FnRun) setResult(dst *ssa.Call, v Val) {
	if dst != nil {
		r.vals[dst] = v
	}
}

func (r *FnRun) execCallCommon(st *State, cc *ssa.CallCommon, dst *ssa.Call, pos token.Pos) *State {
	tb := r.tb()
	what := cc.String()
	if dst != nil {
		what = describeInstr(dst)
	}
	// ---- interface method invoke ----
	if cc.IsInvoke() {
		recv, ok := r.val(cc.Value).(IfaceV)
		if !ok {
			r.unsupported("invoke on %T", r.val(cc.Value))
		}
		if r.root.panics {
			r.oblige(st, "panic", "nilinvoke", tb.Ne(recv.Tag, tb.BVI(64, 0)), pos, what, []string{"C06"})
		}
		it := cc.Value.Type()
		key := ifaceKey(it) + "." + cc.Method.Name()
		c := r.e.specs.Ifaces[key]
		if c == nil {
			r.unsupported("no interface contract for %s", key)
		}
		if c.External {
			r.e.usedExt["iface "+key] = true
		}
		sig := cc.Method.Type().(*types.Signature)
		names := []string{"this"}
		argv := []Val{recv}
		argt := []types.Type{it}
		for i, a := range cc.Args {
			n := sig.Params().At(i).Name()
			if n == "" || n == "_" {
				n = fmt.Sprintf("a%d", i)
			}
			names = append(names, n)
			argv = append(argv, r.val(a))
			argt = append(argt, a.Type())
		}
		res, nst := r.applyContract(st, c, key, sig, names, argv, argt, pos, what)
		r.setResult(dst, res)
		return nst
	}
	// ---- builtins ----
	if b, ok := cc.Value.(*ssa.Builtin); ok {
		return r.execBuiltin(st, b, cc, dst, pos, what)
	}
	callee := cc.StaticCallee()
	if callee == nil {
		// dynamic call through a function value: contract keyed by the named func type or parameter name
		key := "funcval " + funcValKey(cc.Value)
		c := r.e.specs.Ifaces[key]
		if c == nil {
			r.unsupported("dynamic call without contract: %s", key)
		}
		fv := r.scalar(r.val(cc.Value))
		if r.root.panics {
			r.oblige(st, "panic", "nilfunc", tb.Ne(fv, tb.BVI(64, 0)), pos, what, []string{"C06"})
		}
		sig := cc.Value.Type().Underlying().(*types.Signature)
		names := []string{"this"}
		argv := []Val{Scalar{fv}}
		argt := []types.Type{types.Typ[types.Uintptr]}
		for i, a := range cc.Args {
			n := sig.Params().At(i).Name()
			if n == "" || n == "_" {
				n = fmt.Sprintf("a%d", i)
			}
			names = append(names, n)
			argv = append(argv, r.val(a))
			argt = append(argt, a.Type())
		}
		res, nst := r.applyContract(st, c, key, sig, names, argv, argt, pos, what)
		r.setResult(dst, res)
		return nst
	}
	if callee.Name() == "ssa:wrapnilchk" || strings.HasSuffix(callee.String(), "wrapnilchk") {
		r.setResult(dst, r.val(cc.Args[0]))
		return st
	}
	var args []Val
	var argt []types.Type
	for _, a := range cc.Args {
		args = append(args, r.val(a))
		argt = append(argt, a.Type())
	}
	c := r.e.contractFor(callee)
	if c != nil && !c.Inline {
		if c.External {
			r.e.usedExt[callee.String()] = true
		}
		if c.Trusted {
			r.e.usedExt["in-repo function with a TRUSTED (not yet verified) contract: "+callee.String()] = true
		}
		var names []string
		for _, p := range callee.Params {
			names = append(names, p.Name())
		}
		r.curTypeArgs = callee.TypeArgs()
		res, nst := r.applyContract(st, c, r.e.relName(callee), callee.Signature, names, args, argt, pos, what)
		r.curTypeArgs = nil
		if callee.String() == "fmt.Errorf" {
			r.errorfWraps(nst, cc, res)
		}
		r.setResult(dst, res)
		return nst
	}
	// ---- inline in-repo helpers without contract ----
	if (r.e.inRepo(callee) || (c != nil && c.Inline)) && len(callee.Blocks) > 0 && r.depth < maxInlineDepth && !r.onStack(callee) {
		res, nst := r.inlineCall(st, callee, args, pos)
		if nst == nil {
			return nil
		}
		r.setResult(dst, res)
		return nst
	}
	r.unsupported("call to %s: no contract (add one to externals.spec)", callee.String())
	return nil
}

func ifaceKey(t types.Type) string {
	if n, ok := t.(*types.Named); ok {
		return n.Obj().Pkg().Path() + "." + n.Obj().Name()
	}
	if n, ok := t.(*types.Alias); ok {
		return ifaceKey(types.Unalias(n))
	}
	return typeKey(t)
}

func funcValKey(v ssa.Value) string {
	if n, ok := v.Type().(*types.Named); ok {
		return n.Obj().Pkg().Path() + "." + n.Obj().Name()
	}
	if p, ok := v.(*ssa.Parameter); ok {
		return p.Parent().String() + "." + p.Name()
	}
	return v.Type().String()
}

func (r *FnRun) onStack(fn *ssa.Function) bool {
	for x := r; x != nil; x = x.parent {
		if x.fn == fn {
			return true
		}
	}
	return false
}

func (r *FnRun) inlineCall(st *State, callee *ssa.Function, args []Val, pos token.Pos) (Val, *State) {
	sub := &FnRun{root: r.root, e: r.e, fn: callee, c: r.e.contractFor(callee), vals: map[ssa.Value]Val{}, names: map[string]ssa.Value{},
		depth: r.depth + 1, parent: r}
	r.root.counters["inl:"+callee.Name()]++
	sub.label = fmt.Sprintf("%s%s@%d", r.labelPrefix(), callee.Name(), r.root.counters["inl:"+callee.Name()])
	for i, p := range callee.Params {
		sub.vals[p] = args[i]
	}
	if len(callee.FreeVars) > 0 {
		r.unsupported("closure %s", callee)
	}
	sub.execBody(st.Clone())
	if len(sub.rets) == 0 {
		return nil, nil
	}
	return sub.mergeReturns()
}

func (r *FnRun) labelPrefix() string {
	if r.label == "" {
		return ""
	}
	return r.label + "/"
}

func (r *FnRun) mergeReturns() (Val, *State) {
	var sts []*State
	for _, rp := range r.rets {
		sts = append(sts, rp.st)
	}
	out := r.e.mergeStates(sts)
	nres := r.fn.Signature.Results().Len()
	var res []Val
	for i := 0; i < nres; i++ {
		var v Val
		for j := len(r.rets) - 1; j >= 0; j-- {
			if j == len(r.rets)-1 {
				v = r.rets[j].vals[i]
			} else {
				v = r.e.iteVal(r.rets[j].st.PC, r.normVal(r.rets[j].vals[i]), r.normVal(v))
			}
		}
		res = append(res, v)
	}
	switch nres {
	case 0:
		return nil, out
	case 1:
		return res[0], out
	}
	return TupleV{Elems: res}, out
}

// normVal turns pointer descriptors into plain numbers so values from different paths can be merged.
func (r *FnRun) normVal(v Val) Val {
	if p, ok := v.(PtrV); ok && p.Kind != PLocal && p.Kind != PRaw {
		return Scalar{r.e.ptrNum(p)}
	}
	return v
}

// ---------------- builtins ----------------

func (r *FnRun) execBuiltin(st *State, b *ssa.Builtin, cc *ssa.CallCommon, dst *ssa.Call, pos token.Pos, what string) *State {
	tb := r.tb()
	it := func(t *Term) Val { return Scalar{t} }
	switch b.Name() {
	case "len", "cap":
		switch v := r.val(cc.Args[0]).(type) {
		case SliceV:
			if b.Name() == "len" {
				r.setResult(dst, it(v.Len))
			} else {
				r.setResult(dst, it(v.Cap))
			}
		case PSlice:
			if b.Name() == "len" {
				r.setResult(dst, it(v.Len))
			} else {
				r.setResult(dst, it(v.Cap))
			}
		case Scalar: // map len
			r.setResult(dst, it(tb.App("maplen", BV64, r.mapVerOfVal(st, cc.Args[0]), v.T)))
		default:
			r.unsupported("len of %T", v)
		}
		return st
	case "append":
		return r.execAppend(st, cc, dst, pos, what)
	case "copy":
		d, ok1 := r.val(cc.Args[0]).(SliceV)
		s, ok2 := r.val(cc.Args[1]).(SliceV)
		if !ok1 || !ok2 {
			r.unsupported("copy of non-byte slices")
		}
		n := tb.Ite(tb.SLt(d.Len, s.Len), d.Len, s.Len)
		src := r.sliceContent(st, s)
		if d.Raw {
			st.M = tb.CopyRange(st.M, d.Off, src, s.Off, n)
		} else {
			obj := tb.Select(st.BH, d.Base)
			st.BH = tb.Store(st.BH, d.Base, tb.CopyRange(obj, d.Off, src, s.Off, n))
		}
		r.setResult(dst, it(n))
		return st
	case "Add": // unsafe.Add(ptr, len)
		p := r.scalar(r.val(cc.Args[0]))
		n := r.toInt64(r.scalar(r.val(cc.Args[1])), cc.Args[1].Type())
		var al *ssa.Alloc
		if pv, ok := r.val(cc.Args[0]).(PtrV); ok {
			al = pv.Alloc
		}
		r.setResult(dst, PtrV{Kind: PRaw, Addr: tb.Add(p, n), Alloc: al})
		return st
	case "Slice": // unsafe.Slice(ptr, len)
		pv := r.ptr(cc.Args[0])
		n := r.toInt64(r.scalar(r.val(cc.Args[1])), cc.Args[1].Type())
		if pv.Kind != PRaw {
			r.unsupported("unsafe.Slice on non-raw pointer")
		}
		if r.root.panics {
			r.oblige(st, "panic", "unsafeslice", tb.And(tb.SGe(n, tb.BVI(64, 0)), tb.Or(tb.Ne(pv.Addr, tb.BVI(64, 0)), tb.Eq(n, tb.BVI(64, 0)))), pos, what, []string{"C06"})
		}
		r.setResult(dst, SliceV{Base: tb.BVI(64, 0), Off: pv.Addr, Len: n, Cap: n, Raw: true})
		return st
	case "ssa:wrapnilchk":
		r.setResult(dst, r.val(cc.Args[0]))
		return st
	case "Sizeof":
		r.setResult(dst, it(tb.BVI(64, r.e.sizeof(cc.Args[0].Type()))))
		return st
	case "min", "max":
		a, bb := r.scalar(r.val(cc.Args[0])), r.scalar(r.val(cc.Args[1]))
		_, signed, _ := basicInfo(cc.Args[0].Type())
		lt := tb.ULt(a, bb)
		if signed {
			lt = tb.SLt(a, bb)
		}
		if b.Name() == "min" {
			r.setResult(dst, it(tb.Ite(lt, a, bb)))
		} else {
			r.setResult(dst, it(tb.Ite(lt, bb, a)))
		}
		return st
	}
	r.unsupported("builtin %s", b.Name())
	return nil
}

func (r *FnRun) mapVerOfVal(st *State, v ssa.Value) *Term {
	return r.mapVer(st, v.Type().Underlying().(*types.Map))
}

func (r *FnRun) execAppend(st *State, cc *ssa.CallCommon, dst *ssa.Call, pos token.Pos, what string) *State {
	tb := r.tb()
	switch s := r.val(cc.Args[0]).(type) {
	case SliceV:
		t, ok := r.val(cc.Args[1]).(SliceV)
		if !ok {
			r.unsupported("append of %T", r.val(cc.Args[1]))
		}
		if s.Raw {
			r.unsupported("append to raw view")
		}
		n := t.Len
		newLen := tb.Add(s.Len, n)
		fits := tb.SLe(newLen, s.Cap)
		nb := tb.Fresh("ap!"+r.fn.Name(), BV64)
		r.addFact(tb.Ne(nb, tb.BVI(64, 0)))
		r.addFact(tb.Implies(st.PC, tb.Not(tb.Select(st.BA, nb))))
		r.addFact(tb.Not(tb.App("cowned", BoolSort, nb)))
		r.addFact(tb.Not(tb.App("rodata", BoolSort, nb)))
		rb := tb.Ite(fits, s.Base, nb)
		src := r.sliceContent(st, t)
		content := tb.CopyRange(tb.Select(st.BH, s.Base), tb.Add(s.Off, s.Len), src, t.Off, n)
		st.BH = tb.Store(st.BH, rb, content)
		st.BA = tb.Store(st.BA, rb, tb.True())
		ncap := tb.Fresh("apcap!"+r.fn.Name(), BV64)
		r.addFact(tb.SGe(ncap, newLen))
		r.setResult(dst, SliceV{Base: rb, Off: s.Off, Len: newLen, Cap: tb.Ite(fits, s.Cap, ncap)})
		return st
	case PSlice:
		return r.appendTyped(st, s, cc, dst, pos, what)
	}
	r.unsupported("append to %T", r.val(cc.Args[0]))
	return nil
}

// appendTyped: append to a slice of non-byte elements (elements live in the typed heap).
func (r *FnRun) appendTyped(st *State, s PSlice, cc *ssa.CallCommon, dst *ssa.Call, pos token.Pos, what string) *State {
	tb := r.tb()
	t, ok := r.val(cc.Args[1]).(PSlice)
	if !ok {
		r.unsupported("append of %T to typed slice", r.val(cc.Args[1]))
	}
	// only single-element appends (varargs slice of length 1) are modelled
	if !t.Len.IsConst() || t.Len.Val.Int64() != 1 {
		r.unsupported("append of more than one typed element")
	}
	sz := r.e.sizeof(s.Elem)
	elem := r.objLoad(st, t.Ptr, s.Elem)
	newLen := tb.Add(s.Len, tb.BVI(64, 1))
	fits := tb.SLe(newLen, s.Cap)
	np := tb.Fresh("app!"+r.fn.Name(), BV64)
	r.addFact(tb.Ne(np, tb.BVI(64, 0)))
	r.addFact(tb.ULt(np, tb.BVU(64, 1<<47)))
	for _, kr := range r.root.knownRanges {
		if kr[0] != s.Ptr {
			r.addFact(tb.Not(tb.ULt(tb.Sub(np, kr[0]), kr[1])))
		}
	}
	if len(r.root.caseSplits) == 0 && !fits.IsConst() {
		r.root.caseSplits = append(r.root.caseSplits, fits)
	}
	ncap := tb.Fresh("apcap!"+r.fn.Name(), BV64)
	r.addFact(tb.SGe(ncap, newLen))
	r.addFact(tb.SLt(ncap, tb.BVU(64, 1<<40)))
	{
		// allocator semantics (assumed): a block obtained by growing a slice lies outside everything that was allocated
		// when the function was entered and outside everything allocated so far
		fa := tb.BoundVar("a", BV64)
		inBlk := tb.ULt(tb.Sub(fa, np), tb.Mul(ncap, tb.BVI(64, sz)))
		r.addFact(tb.Forall([]*Term{fa}, tb.Implies(inBlk, tb.Not(tb.Select(r.rootEntry().RA, fa))), []*Term{tb.Select(r.rootEntry().RA, fa)}))
		if st.RA != r.rootEntry().RA {
			fb := tb.BoundVar("a", BV64)
			inB := tb.ULt(tb.Sub(fb, np), tb.Mul(ncap, tb.BVI(64, sz)))
			r.assume(st, tb.Forall([]*Term{fb}, tb.Implies(inB, tb.Not(tb.Select(st.RA, fb))), []*Term{tb.Select(st.RA, fb)}))
		}
		r.root.localRanges = append(r.root.localRanges, [2]*Term{np, tb.Mul(ncap, tb.BVI(64, sz))})
	}
	rp := tb.Ite(fits, s.Ptr, np)
	// on reallocation the old elements are copied: per leaf array a quantified copy fact
	pre := st.Clone()
	keys := r.typeLeafKeys(s.Elem)
	for _, lk := range keys {
		old := r.e.heapArr(pre, lk.key, lk.sort)
		na := tb.Fresh("H:"+lk.key, old.Sort)
		i := tb.BoundVar("i", BV64)
		// elements: for i < len: na[np + i*sz] = old[s.Ptr + i*sz]; elsewhere unchanged (fresh memory aside)
		src := tb.Add(s.Ptr, tb.Mul(i, tb.BVI(64, sz)))
		dstA := tb.Add(np, tb.Mul(i, tb.BVI(64, sz)))
		r.assume(st, tb.Implies(tb.Not(fits), tb.Forall([]*Term{i}, tb.Implies(tb.And(tb.SLe(tb.BVI(64, 0), i), tb.SLt(i, s.Len)),
			tb.Eq(tb.Select(na, tb.Add(dstA, tb.BVI(64, lk.off))), tb.Select(old, tb.Add(src, tb.BVI(64, lk.off))))))))
		a := tb.BoundVar("a", BV64)
		// addresses outside the new block keep their content
		inNew := tb.ULt(tb.Sub(a, np), tb.Mul(tb.Add(s.Len, tb.BVI(64, 1)), tb.BVI(64, sz)))
		r.assume(st, tb.Forall([]*Term{a}, tb.Implies(tb.Or(fits, tb.Not(inNew)), tb.Eq(tb.Select(na, a), tb.Select(old, a))), []*Term{tb.Select(na, a)}))
		st.Heap[lk.key] = na
	}
	// the new block does not overlap the old one
	r.assume(st, tb.Implies(tb.Not(fits), tb.Or(tb.ULe(tb.Add(np, tb.Mul(newLen, tb.BVI(64, sz))), s.Ptr), tb.ULe(tb.Add(s.Ptr, tb.Mul(s.Len, tb.BVI(64, sz))), np), tb.Eq(s.Ptr, tb.BVI(64, 0)))))
	r.objStore(st, tb.Add(rp, tb.Mul(s.Len, tb.BVI(64, sz))), s.Elem, elem)
	r.setResult(dst, PSlice{Ptr: rp, Len: newLen, Cap: tb.Ite(fits, s.Cap, ncap), Elem: s.Elem})
	return st
}

type leafKey struct {
	key  string
	sort *Sort
	off  int64 // offset of the owning struct (for nested structs) relative to the element start
}

// typeLeafKeys lists the typed-heap leaf arrays that hold a value of type t (keyed at the struct address + off).
func (r *FnRun) typeLeafKeys(t types.Type) []leafKey {
	var out []leafKey
	var rec func(t types.Type, off int64)
	rec = func(t types.Type, off int64) {
		if u, ok := t.Underlying().(*types.Struct); ok {
			offs := r.e.sizes.Offsetsof(structFields(u))
			for i := 0; i < u.NumFields(); i++ {
				ft := u.Field(i).Type()
				if _, isS := ft.Underlying().(*types.Struct); isS {
					rec(ft, off+offs[i])
					continue
				}
				for _, sfx := range leafSuffixes(ft) {
					out = append(out, leafKey{fieldKey(t, i) + sfx.s, sfx.sort, off})
				}
			}
			return
		}
		for _, sfx := range leafSuffixes(t) {
			out = append(out, leafKey{"cell:" + typeKey(t) + sfx.s, sfx.sort, off})
		}
	}
	rec(t, 0)
	return out
}

type sfx struct {
	s    string
	sort *Sort
}

func leafSuffixes(t types.Type) []sfx {
	switch t.Underlying().(type) {
	case *types.Basic:
		if isBool(t) {
			return []sfx{{"", BoolSort}}
		}
		if isString(t) {
			return []sfx{{".base", BV64}, {".off", BV64}, {".len", BV64}}
		}
		if w, _, ok := basicInfo(t); ok {
			return []sfx{{"", BV(w)}}
		}
	case *types.Pointer, *types.Map, *types.Chan, *types.Signature:
		return []sfx{{"", BV64}}
	case *types.Slice:
		if isByteSlice(t) {
			return []sfx{{".base", BV64}, {".off", BV64}, {".len", BV64}, {".cap", BV64}}
		}
		return []sfx{{".ptr", BV64}, {".len", BV64}, {".cap", BV64}}
	case *types.Interface:
		return []sfx{{".tag", BV64}, {".data", BV64}}
	}
	return nil
}

// ---------------- contract application ----------------

type ModTarget struct {
	Kind  string // field obj M BH ghost map all trace
	Key   string // field: key prefix
	FT    types.Type
	Addr  *Term
	A, N  *Term
	Base  *Term
	Name  string
	ObjT  types.Type
	Alloc *ssa.Alloc
	Via   []string // pointer fields the address was read through
}

func (r *FnRun) bindNames(env *Env, names []string, args []Val, argt []types.Type) {
	for i, n := range names {
		if n == "" || n == "_" {
			continue
		}
		env.vars[n] = CV{V: args[i], T: argt[i]}
	}
}

func (r *FnRun) bindResults(env *Env, sig *types.Signature, res Val) {
	n := sig.Results().Len()
	get := func(i int) Val {
		if n == 1 {
			return res
		}
		return res.(TupleV).Elems[i]
	}
	for i := 0; i < n; i++ {
		v := sig.Results().At(i)
		cv := CV{V: get(i), T: v.Type()}
		if v.Name() != "" && v.Name() != "_" {
			env.vars[v.Name()] = cv
		}
		env.vars[fmt.Sprintf("res%d", i)] = cv
		if n == 1 {
			env.vars["res"] = cv
		}
		if i == n-1 && isErrorType(v.Type()) {
			env.vars["err"] = cv
		}
		if i == 0 && n == 2 && isErrorType(sig.Results().At(1).Type()) {
			env.vars["res"] = cv
		}
	}
}

func isErrorType(t types.Type) bool {
	n, ok := t.(*types.Named)
	return ok && n.Obj().Pkg() == nil && n.Obj().Name() == "error"
}

func (r *FnRun) applyContract(st *State, c *Contract, calleeName string, sig *types.Signature, names []string, args []Val, argt []types.Type, pos token.Pos, what string) (Val, *State) {
	pre := st
	env := r.newEnv(pre, pre)
	r.bindNames(env, names, args, argt)
	for _, l := range c.Lets {
		env.vars[l.Name] = env.Eval(l.E)
	}
	for i, cl := range c.Requires {
		g := env.EvalBool(cl.E)
		r.oblige(st, "pre", fmt.Sprintf("%s.%d", calleeName, i+1), g, pos, what+"  requires "+cl.Text, cl.Tags)
	}
	if c.Measure != nil && r.root.c != nil && r.root.c.Measure != nil && r.root.measure != nil && r.depth == 0 {
		// recursion: the callee's measure is strictly below the caller's measure at entry, and not negative
		mc := env.coerceConst(env.Eval(c.Measure), types.Typ[types.Int])
		m := r.toInt64(r.scalar(mc.V), mc.T)
		tb := r.tb()
		r.oblige(st, "rec-dec", shortName(calleeName), tb.And(tb.SLe(tb.BVI(64, 0), m), tb.SLt(m, r.root.measure)), pos, what+"  measure "+c.Measure.String()+" decreases", []string{"C06", "C15"})
	}
	post := pre.Clone()
	mods := r.resolveMods(c, env)
	r.applyHavoc(post, pre, mods)
	var res Val
	nres := sig.Results().Len()
	if nres == 1 {
		res = r.e.freshVal(sig.Results().At(0).Type(), "r!"+shortName(calleeName))
	} else if nres > 1 {
		res = r.e.freshVal(sig.Results(), "r!"+shortName(calleeName))
	}
	env2 := env.child()
	env2.cur, env2.old = post, pre
	if len(c.Returns) > 0 {
		// defined results (assumed external contracts only): the named result is the value of an expression over the arguments
		if !c.External {
			panic(cerr("returns clauses are only allowed on assumed external contracts (%s)", calleeName))
		}
		for _, rd := range c.Returns {
			v := env2.Eval(rd.E)
			found := false
			for i := 0; i < nres; i++ {
				rv := sig.Results().At(i)
				if rv.Name() == rd.Name || (nres == 1 && rd.Name == "res") || rd.Name == fmt.Sprintf("res%d", i) {
					if v.Const != nil {
						v = env2.coerceConst(v, rv.Type())
					}
					if nres == 1 {
						res = v.V
					} else {
						res.(TupleV).Elems[i] = v.V
					}
					found = true
					break
				}
			}
			if !found {
				panic(cerr("returns: %s has no result %q", calleeName, rd.Name))
			}
		}
	}
	if nres > 0 {
		r.bindResults(env2, sig, res)
		if nres == 1 {
			r.resultInvariant(post, res, sig.Results().At(0).Type())
		} else {
			for i, el := range res.(TupleV).Elems {
				r.resultInvariant(post, el, sig.Results().At(i).Type())
			}
		}
	}
	for _, cl := range c.Ensures {
		if isTraceClause(cl.E) {
			continue // statements about the callee's own activation trace are not visible to callers
		}
		r.assume(post, env2.EvalBool(cl.E))
	}
	for _, f := range c.Fresh {
		cv := env2.Eval(mustParse(f))
		switch v := cv.V.(type) {
		case SliceV:
			r.assume(post, r.tb().Or(r.tb().Eq(v.Base, r.tb().BVI(64, 0)), r.tb().Not(r.tb().Select(pre.BA, v.Base))))
		}
	}
	for _, em := range c.Emits {
		r.emitEvent(post, env2, em.E)
	}
	return res, post
}

func mustParse(s string) *Expr {
	e, err := ParseExpr(s)
	if err != nil {
		panic(err)
	}
	return e
}

func shortName(s string) string {
	if i := strings.LastIndex(s, "/"); i >= 0 {
		s = s[i+1:]
	}
	return s
}

// emitEvent appends EV(args...) to the activation's ghost trace. Word slots a..f; one byte-string slot (arr).
func (r *FnRun) emitEvent(st *State, env *Env, e *Expr) {
	tb := r.tb()
	if e.Kind != "call" {
		panic(cerr("emits expects EVENT(args)"))
	}
	kind, ok := eventKinds[e.Name]
	if !ok {
		panic(cerr("unknown event %s", e.Name))
	}
	var slots []*Term
	var arr *Term
	for _, a := range e.Args {
		cv := env.coerceConst(env.Eval(a), types.Typ[types.Int64])
		if sv, isSlice := cv.V.(SliceV); isSlice {
			if arr != nil {
				panic(cerr("event %s: only one byte-string argument is supported", e.Name))
			}
			arr = r.sliceContent(env.cur, sv)
			slots = append(slots, sv.Off, sv.Len)
			continue
		}
		var ls []leaf
		leaves(cv.V, "", &ls)
		for _, l := range ls {
			t := l.T
			if t.Sort == BoolSort {
				t = tb.Ite(t, tb.BVI(64, 1), tb.BVI(64, 0))
			} else if t.Sort.Kind == SBV && t.Sort.W < 64 {
				t = tb.ZExt(t, 64)
			} else if t.Sort.Kind != SBV {
				continue
			}
			slots = append(slots, t)
		}
	}
	n := r.e.ghost(st, "trace.len", BV64)
	// ghost assumption: an activation records fewer than 2^62 events (its trace length never wraps)
	r.assume(st, tb.And(tb.SLe(tb.BVI(64, 0), n), tb.SLt(n, tb.BVU(64, 1<<62))))
	r.root.notes["ghost traces: fewer than 2^62 events per activation (trace length does not wrap)"] = true
	set := func(name string, v *Term) {
		arrT := r.e.ghost(st, "trace."+name, WordAr)
		st.Ghost["trace."+name] = tb.Store(arrT, n, v)
	}
	set("kind", tb.BVI(64, int64(kind)))
	names := []string{"a", "b", "c", "d", "e", "f", "g", "h"}
	if len(slots) > len(names) {
		panic(cerr("event %s has too many words", e.Name))
	}
	for i, nm := range names {
		if i < len(slots) {
			set(nm, slots[i])
		}
	}
	if arr != nil {
		at := r.e.ghost(st, "trace.arr", ObjAr)
		st.Ghost["trace.arr"] = tb.Store(at, n, arr)
	}
	st.Ghost["trace.len"] = tb.Add(n, tb.BVI(64, 1))
}

// resolveMods interprets the modifies clause. env may be nil (static resolution: whole arrays).
func (r *FnRun) resolveMods(c *Contract, env *Env) []ModTarget {
	if !c.HasMod {
		return []ModTarget{{Kind: "all"}}
	}
	var out []ModTarget
	for _, m := range c.Modifies {
		out = append(out, r.resolveMod(m, env)...)
	}
	if len(c.Emits) > 0 {
		out = append(out, ModTarget{Kind: "trace"})
	}
	return out
}

func (r *FnRun) resolveMod(m string, env *Env) []ModTarget {
	m = strings.TrimSpace(m)
	switch {
	case m == "*":
		return []ModTarget{{Kind: "all"}}
	case m == "M":
		return []ModTarget{{Kind: "M"}}
	case m == "BH":
		return []ModTarget{{Kind: "BH"}}
	case m == "trace":
		return []ModTarget{{Kind: "trace"}}
	case strings.HasPrefix(m, "M["):
		inner := strings.TrimSuffix(strings.TrimPrefix(m, "M["), "]")
		parts := splitTop(inner, ',')
		if len(parts) != 2 {
			panic(cerr("modifies M[a, n] expects two expressions"))
		}
		if env == nil {
			return []ModTarget{{Kind: "M"}}
		}
		a := env.coerceConst(env.Eval(mustParse(parts[0])), types.Typ[types.Uintptr])
		n := env.coerceConst(env.Eval(mustParse(parts[1])), types.Typ[types.Int])
		return []ModTarget{{Kind: "M", A: r.scalar(a.V), N: r.toInt64(r.scalar(n.V), n.T)}}
	case strings.HasPrefix(m, "BH["):
		inner := strings.TrimSuffix(strings.TrimPrefix(m, "BH["), "]")
		if env == nil {
			return []ModTarget{{Kind: "BH"}}
		}
		cv := env.Eval(mustParse(inner))
		switch v := cv.V.(type) {
		case SliceV:
			return []ModTarget{{Kind: "BH", Base: v.Base}}
		case PtrV:
			if v.Kind == PByteObj {
				return []ModTarget{{Kind: "BH", Base: v.Base}}
			}
		case Scalar:
			return []ModTarget{{Kind: "BH", Base: v.T}}
		}
		panic(cerr("modifies BH[x]: x must be a byte slice"))
	case strings.HasPrefix(m, "ghost "):
		return []ModTarget{{Kind: "ghost", Name: strings.TrimSpace(strings.TrimPrefix(m, "ghost "))}}
	case strings.HasPrefix(m, "map "):
		return []ModTarget{{Kind: "map", Name: strings.TrimSpace(strings.TrimPrefix(m, "map "))}}
	case strings.HasPrefix(m, "heap "):
		return []ModTarget{{Kind: "field", Key: strings.TrimSpace(strings.TrimPrefix(m, "heap "))}}
	case strings.HasPrefix(m, "type "):
		var from *types.Package
		if env != nil {
			from = env.pkg
		}
		t := r.e.parseTypeName(from, strings.TrimSpace(strings.TrimPrefix(m, "type ")))
		if t == nil {
			panic(cerr("modifies %s: unknown type", m))
		}
		return []ModTarget{{Kind: "heaptype", ObjT: t}}
	}
	// x.f  or  *x
	if strings.HasPrefix(m, "*") {
		ex := mustParse(m[1:])
		if env == nil {
			panic(cerr("modifies *x needs call context"))
		}
		cv := env.Eval(ex)
		pt, ok := cv.T.Underlying().(*types.Pointer)
		if !ok {
			panic(cerr("modifies *x: x is not a pointer"))
		}
		return []ModTarget{{Kind: "obj", Addr: r.scalar(cv.V), ObjT: pt.Elem()}}
	}
	ex := mustParse(m)
	if ex.Kind != "field" {
		panic(cerr("unsupported modifies target %q", m))
	}
	if env == nil {
		panic(cerr("static modifies resolution of %q not available", m))
	}
	recv := env.Eval(ex.Args[0])
	pt, ok := recv.T.Underlying().(*types.Pointer)
	if !ok {
		panic(cerr("modifies %s: receiver is not a pointer", m))
	}
	su, ok := pt.Elem().Underlying().(*types.Struct)
	if !ok {
		panic(cerr("modifies %s: not a struct", m))
	}
	base := r.asPtr(recv.V, recv.T)
	for i := 0; i < su.NumFields(); i++ {
		if su.Field(i).Name() == ex.Name {
			ft := su.Field(i).Type()
			if base.Kind == PRaw {
				off := r.e.sizes.Offsetsof(structFields(su))[i]
				return []ModTarget{{Kind: "M", A: r.tb().Add(base.Addr, r.tb().BVI(64, off)), N: r.tb().BVI(64, r.e.sizeof(ft))}}
			}
			if _, isBA := isByteArray(ft); isBA {
				return []ModTarget{{Kind: "BH", Base: r.tb().App("fobj:"+fieldKey(pt.Elem(), i), BV64, base.Addr)}}
			}
			return []ModTarget{{Kind: "field", Key: fieldKey(pt.Elem(), i), FT: ft, Addr: base.Addr}}
		}
	}
	panic(cerr("modifies %s: no such field", m))
}

func (r *FnRun) allHeapKeys(st *State) []string {
	ks := map[string]bool{}
	for k := range st.Heap {
		ks[k] = true
	}
	for k := range r.e.initHeap {
		ks[k] = true
	}
	var out []string
	for k := range ks {
		out = append(out, k)
	}
	sort.Strings(out)
	return out
}

// applyHavoc replaces the modified parts of post (a clone of pre) by fresh values, with frame facts.
func (r *FnRun) applyHavoc(post, pre *State, mods []ModTarget) {
	tb := r.tb()
	var mRanges [][2]*Term
	mWhole, bhWhole := false, false
	var bhBases []*Term
	touchM, touchBH := false, false
	for _, m := range mods {
		switch m.Kind {
		case "all":
			for _, k := range r.allHeapKeys(pre) {
				old := pre.Heap[k]
				if old == nil {
					old = r.e.initHeap[k]
				}
				post.Heap[k] = tb.Fresh("H:"+k, old.Sort)
			}
			mWhole, bhWhole, touchM, touchBH = true, true, true, true
			for k, v := range pre.Ghost {
				if strings.HasPrefix(k, "trace.") {
					continue
				}
				post.Ghost[k] = tb.Fresh("G:"+k, v.Sort)
			}
			for k := range pre.MapVer {
				post.MapVer[k] = tb.Fresh("MV", BV64)
			}
			post.havocAll = true
		case "field":
			sfxs := []sfx{{"", nil}}
			if m.FT != nil {
				sfxs = leafSuffixes(m.FT)
			}
			for _, s := range sfxs {
				k := m.Key + s.s
				var old *Term
				if s.sort != nil {
					old = r.e.heapArr(pre, k, s.sort)
				} else {
					old = pre.Heap[k]
					if old == nil {
						old = r.e.initHeap[k]
					}
					if old == nil {
						continue
					}
				}
				if m.Addr != nil {
					post.Heap[k] = tb.Store(old, m.Addr, tb.Fresh("hv:"+k, old.Sort.Elem))
				} else {
					post.Heap[k] = tb.Fresh("H:"+k, old.Sort)
				}
			}
		case "obj":
			for _, lk := range r.typeLeafKeys(m.ObjT) {
				old := r.e.heapArr(pre, lk.key, lk.sort)
				post.Heap[lk.key] = tb.Store(old, tb.Add(m.Addr, tb.BVI(64, lk.off)), tb.Fresh("hv:"+lk.key, lk.sort))
			}
		case "heaptype":
			for _, lk := range r.typeLeafKeys(m.ObjT) {
				old := r.e.heapArr(pre, lk.key, lk.sort)
				post.Heap[lk.key] = tb.Fresh("H:"+lk.key, old.Sort)
			}
		case "M":
			touchM = true
			if m.A == nil {
				mWhole = true
			} else {
				mRanges = append(mRanges, [2]*Term{m.A, m.N})
			}
		case "BH":
			touchBH = true
			if m.Base == nil {
				bhWhole = true
			} else {
				bhBases = append(bhBases, m.Base)
			}
		case "ghost":
			old := pre.Ghost[m.Name]
			if old == nil {
				old = r.e.tb.vars["G0:"+m.Name]
			}
			if old != nil {
				post.Ghost[m.Name] = tb.Fresh("G:"+m.Name, old.Sort)
			} else {
				post.Ghost[m.Name] = nil
				delete(post.Ghost, m.Name)
				r.root.lateGhost[m.Name] = true
			}
		case "map":
			post.MapVer["map:"+m.Name] = tb.Fresh("MV", BV64)
		case "trace":
			// handled by emitEvent
		}
	}
	if touchM {
		nm := tb.Fresh("M", ByteAr)
		nsb := tb.Fresh("SB", WordAr)
		nso := tb.Fresh("SO", WordAr)
		nra := tb.Fresh("RA", BoolAr)
		a := tb.BoundVar("a", BV64)
		// allocation only grows
		r.assume(post, tb.Forall([]*Term{a}, tb.Implies(tb.Select(pre.RA, a), tb.Select(nra, a)), []*Term{tb.Select(pre.RA, a)}))
		if !mWhole {
			var in []*Term
			for _, rg := range mRanges {
				in = append(in, tb.ULt(tb.Sub(a, rg[0]), rg[1]))
			}
			keep := tb.And(tb.Select(pre.RA, a), tb.Not(tb.Or(in...)))
			r.assume(post, tb.Forall([]*Term{a}, tb.Implies(keep, tb.Eq(tb.Select(nm, a), tb.Select(pre.M, a))), []*Term{tb.Select(nm, a)}))
			r.assume(post, tb.Forall([]*Term{a}, tb.Implies(keep, tb.And(tb.Eq(tb.Select(nsb, a), tb.Select(pre.SB, a)), tb.Eq(tb.Select(nso, a), tb.Select(pre.SO, a)))), []*Term{tb.Select(nsb, a)}, []*Term{tb.Select(nso, a)}))
		}
		post.M, post.SB, post.SO, post.RA = nm, nsb, nso, nra
	}
	if touchBH {
		nbh := tb.Fresh("BH", ObjAr)
		nba := tb.Fresh("BA", BoolAr)
		b := tb.BoundVar("b", BV64)
		r.assume(post, tb.Forall([]*Term{b}, tb.Implies(tb.Select(pre.BA, b), tb.Select(nba, b)), []*Term{tb.Select(pre.BA, b)}))
		if !bhWhole {
			var in []*Term
			for _, bb := range bhBases {
				in = append(in, tb.Eq(b, bb))
			}
			keep := tb.And(tb.Select(pre.BA, b), tb.Not(tb.Or(in...)))
			r.assume(post, tb.Forall([]*Term{b}, tb.Implies(keep, tb.Eq(tb.Select(nbh, b), tb.Select(pre.BH, b))), []*Term{tb.Select(nbh, b)}))
		}
		post.BH, post.BA = nbh, nba
	}
}

// resultInvariant: Go-level invariants of a value returned by a callee (slice bounds, allocated backing object).
func (r *FnRun) resultInvariant(st *State, v Val, t types.Type) {
	switch x := v.(type) {
	case SliceV:
		if x.Arr != nil {
			return // a ghost byte string (content array, no backing object): the header invariants do not apply
		}
		r.loadedSliceInvariant(st, x)
	case PSlice:
		r.typeInvariant(x, t)
	}
}

func isTraceClause(e *Expr) bool {
	if e == nil {
		return false
	}
	if e.Kind == "call" {
		switch e.Name {
		case "tlen", "tkind", "ta", "tb", "tc", "td", "te", "tf", "tg", "th", "tbytes":
			return true
		}
	}
	for _, a := range e.Args {
		if isTraceClause(a) {
			return true
		}
	}
	return false
}

// errorfWraps: fmt.Errorf with a constant format: every argument formatted with %w is wrapped by the result
// (assumed contract of package fmt).
func (r *FnRun) errorfWraps(st *State, cc *ssa.CallCommon, res Val) {
	fc, ok := cc.Args[0].(*ssa.Const)
	if !ok || fc.Value == nil {
		return
	}
	format := constant.StringVal(fc.Value)
	ps, ok := r.val(cc.Args[1]).(PSlice)
	if !ok {
		return
	}
	rv, ok := res.(IfaceV)
	if !ok {
		return
	}
	// completeness for the sentinel io.EOF (the only errors.Is target in this code base): the result wraps io.EOF
	// only through a %w argument that does
	var wrapped []IfaceV
	defer func() {
		if g := r.e.findGlobal(nil, "io", "EOF"); g != nil {
			eof := r.e.globalVal(g, nil, g.Type().(*types.Pointer).Elem()).(IfaceV)
			tb := r.tb()
			var alts []*Term
			for _, w := range wrapped {
				alts = append(alts, r.e.wraps(w, eof))
			}
			r.assume(st, tb.Implies(r.e.wraps(rv, eof), tb.Or(alts...)))
		}
	}()
	argi := 0
	for i := 0; i < len(format); i++ {
		if format[i] != '%' {
			continue
		}
		i++
		for i < len(format) && strings.ContainsRune("+-# 0123456789.", rune(format[i])) {
			i++
		}
		if i >= len(format) {
			break
		}
		if format[i] == '%' {
			continue
		}
		if format[i] == 'w' {
			addr := r.tb().Add(ps.Ptr, r.tb().BVI(64, int64(16*argi)))
			if el, ok := r.objLoad(st, addr, ps.Elem).(IfaceV); ok {
				r.assume(st, r.e.wraps(rv, el))
				wrapped = append(wrapped, el)
			}
		}
		argi++
	}
}

// calleeShort: a short name for the callee of a call (method or function name; "invoke:M" for interface calls; "cb" style
// parameter names for function values).
func calleeShort(cc *ssa.CallCommon) string {
	if cc.IsInvoke() {
		return cc.Method.Name()
	}
	if b, ok := cc.Value.(*ssa.Builtin); ok {
		return b.Name()
	}
	if f := cc.StaticCallee(); f != nil {
		return f.Name()
	}
	if p, ok := cc.Value.(*ssa.Parameter); ok {
		return p.Name()
	}
	return "dynamic"
}
