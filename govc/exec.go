package main

// Symbolic execution of SSA function bodies into verification conditions.

import (
	"fmt"
	"go/constant"
	"go/token"
	"go/types"
	"math/big"
	"os"
	"sort"
	"strings"

	"golang.org/x/tools/go/ssa"
)

type allocKind int

const (
	akLocal allocKind = iota // non-escaping cell
	akRaw                    // address converted to unsafe.Pointer: lives in raw memory
	akHeap                   // escapes as typed pointer: fresh typed-heap object
	akBytes                  // [N]byte array: fresh byte object
)

type loopInfo struct {
	Header  *ssa.BasicBlock
	Body    map[*ssa.BasicBlock]bool
	Ordinal int
	Spec    *LoopSpec
	// recorded at header
	decAtHeader  *Term
	progAtHeader *Term
	merge        *ssa.BasicBlock
	mergeDone    bool
	headState    *State
	phiVals      map[*ssa.Phi]Val
}

type root struct {
	entry       *State
	paramTerms  []*Term
	notes       map[string]bool
	lateGhost   map[string]bool
	localAddrs  []*Term
	measure     *Term      // value of the contract's termination measure at function entry
	caseSplits  []*Term    // conditions to split every later obligation on (proof by cases)
	localRanges [][2]*Term // typed backing arrays allocated by this activation (start, bytes)
	knownRanges [][2]*Term // typed slices seen so far (backing array start, bytes): memory that exists before later allocations
	localSizes  []int64
	freshMaps   map[string][]freshMap // map type key -> handles of the maps made by this activation
	watch       []leaf
	e           *Engine
	fn          *ssa.Function
	c           *Contract
	facts       []*Term
	obls        []*Obligation
	counters    map[string]int
	unsup       []string
	inputs      []leaf
	panics      bool
	props       map[string]bool // when non-nil: only clauses with these tags (or untagged)
}

type freshMap struct {
	h *Term
	t *types.Map
}

type FnRun struct {
	curTypeArgs    []types.Type // type arguments of the generic callee whose contract is being applied (typearg(i))
	root           *root
	e              *Engine
	fn             *ssa.Function
	c              *Contract
	vals           map[ssa.Value]Val
	names          map[string]ssa.Value
	allocKind      map[*ssa.Alloc]allocKind
	loops          map[*ssa.BasicBlock]*loopInfo
	inLoop         map[*ssa.BasicBlock][]*loopInfo
	depth          int
	label          string // prefix for obligations from inlined bodies
	entry          *State
	env            *Env
	params         []Val
	rets           []retPoint
	curBlock       *ssa.BasicBlock
	defers         []*ssa.Defer
	parent         *FnRun
	iters          map[ssa.Value]SliceV
	loopPhis       map[string]*ssa.Phi
	loopLets       map[string]CV // ghost snapshots declared by `loop N let`
	loopEntryState *State
	callOrdinal    int
	calleeCount    map[string]int
}

type retPoint struct {
	st   *State
	vals []Val
}

func (r *FnRun) tb() *TB { return r.e.tb }

func (r *FnRun) addFact(t *Term) {
	if t == nil || t.IsTrue() {
		return
	}
	r.root.facts = append(r.root.facts, t)
}

func (r *FnRun) assume(st *State, t *Term) {
	r.addFact(r.tb().Implies(st.PC, t))
}

func (r *FnRun) oblige(st *State, kind, detail string, goal *Term, pos token.Pos, text string, tags []string) {
	base := kind
	if detail != "" {
		base += ":" + detail
	}
	if r.label != "" {
		base = r.label + "/" + base
	}
	r.root.counters[base]++
	name := fmt.Sprintf("%s:%s#%d", r.e.relName(r.root.fn), base, r.root.counters[base])
	hyps := append([]*Term{}, r.root.facts...)
	hyps = append(hyps, st.PC)
	goal = r.e.simplifyUnder(st.PC, goal)
	pieces := r.e.splitGoal(goal)
	for i, pc := range pieces {
		n := name
		if len(pieces) > 1 {
			n = fmt.Sprintf("%s.%c", name, 'a'+i)
			if i >= 26 {
				n = fmt.Sprintf("%s.z%d", name, i)
			}
		}
		h := append(append([]*Term{}, hyps...), pc.hyps...)
		if len(r.root.caseSplits) > 0 {
			// proof by cases on conditions recorded during execution (e.g. "append fits in place" / "append reallocates"):
			// the two cases together cover everything, each is far easier for the solvers than the merged goal
			c := r.root.caseSplits[0]
			for k, cc := range []*Term{c, r.tb().Not(c)} {
				hk := append(append([]*Term{}, h...), cc)
				o := &Obligation{Name: fmt.Sprintf("%s|case%d", n, k), Func: r.e.relName(r.root.fn), Kind: kind, Hyps: hk, Goal: r.e.simplifyUnder(cc, pc.goal), Pos: r.e.pos(pos), Text: text, Tags: tags, Inputs: r.root.inputs, root: r.root}
				r.root.obls = append(r.root.obls, o)
			}
			continue
		}
		o := &Obligation{Name: n, Func: r.e.relName(r.root.fn), Kind: kind, Hyps: h, Goal: pc.goal, Pos: r.e.pos(pos), Text: text, Tags: tags, Inputs: r.root.inputs, root: r.root}
		r.root.obls = append(r.root.obls, o)
	}
}

type goalPiece struct {
	hyps []*Term
	goal *Term
}

// splitGoal breaks a goal into independently checkable pieces: conjunctions are split, implications move their
// antecedent to the hypotheses, universally quantified goals are skolemised.
// lemmaSplit enables case splitting on disjunctive premises (set while lemma obligations are generated)
var lemmaSplit bool

func (e *Engine) splitGoal(goal *Term) []goalPiece {
	tb := e.tb
	var out []goalPiece
	var rec func(h []*Term, g *Term, depth int)
	rec = func(h []*Term, g *Term, depth int) {
		if len(out) > 40 || depth > 8 {
			out = append(out, goalPiece{h, g})
			return
		}
		switch g.Op {
		case "and":
			for _, a := range g.Args {
				rec(h, a, depth+1)
			}
		case "=>":
			// (A && (B1 || B2)) => G  is proved by cases on the disjunction (lemmas about disjoint ranges are far
			// easier for the solvers one case at a time); only for lemma-sized goals
			if ante := g.Args[0]; lemmaSplit && depth < 3 {
				conj := []*Term{ante}
				if ante.Op == "and" {
					conj = ante.Args
				}
				for ci, c := range conj {
					if c.Op == "or" && len(c.Args) <= 3 && !c.hasBV {
						for _, d := range c.Args {
							rest := append(append([]*Term{}, conj[:ci]...), conj[ci+1:]...)
							rest = append(rest, d)
							rec(append(append([]*Term{}, h...), rest...), g.Args[1], depth+1)
						}
						return
					}
				}
			}
			rec(append(append([]*Term{}, h...), g.Args[0]), g.Args[1], depth+1)
		case "forall":
			m := map[*Term]*Term{}
			for _, b := range g.Bound {
				m[b] = tb.Fresh("sk!"+strings.SplitN(b.Name, "?", 2)[0], b.Sort)
			}
			rec(h, tb.Subst(g.Args[0], m), depth+1)
		case "not":
			// not (a or b) = not a and not b ; not (a => b) = a and not b
			x := g.Args[0]
			if x.Op == "or" {
				for _, a := range x.Args {
					rec(h, tb.Not(a), depth+1)
				}
				return
			}
			out = append(out, goalPiece{h, g})
		case "=":
			// (ite c a b) = d  splits into  c => a = d  and  not c => b = d  (one level; helps the solvers a lot)
			if g.Args[0].Sort != BoolSort && depth < 6 && os.Getenv("GOVC_NO_ITESPLIT") == "" {
				for k := 0; k < 2; k++ {
					x, d := g.Args[k], g.Args[1-k]
					if x.Op == "ite" && !x.hasBV && d.Op != "ite" {
						rec(append(append([]*Term{}, h...), x.Args[0]), tb.Eq(x.Args[1], d), 9)
						rec(append(append([]*Term{}, h...), tb.Not(x.Args[0])), tb.Eq(x.Args[2], d), 9)
						return
					}
				}
			}
			out = append(out, goalPiece{h, g})
		default:
			out = append(out, goalPiece{h, g})
		}
	}
	rec(nil, goal, 0)
	if len(out) == 0 {
		out = append(out, goalPiece{nil, goal})
	}
	return out
}

func (r *FnRun) unsupported(format string, args ...interface{}) {
	panic(unsupported(fmt.Sprintf(format, args...)))
}

// ---------------- loops ----------------

func (r *FnRun) findLoops() {
	fn := r.fn
	r.loops = map[*ssa.BasicBlock]*loopInfo{}
	r.inLoop = map[*ssa.BasicBlock][]*loopInfo{}
	var headers []*ssa.BasicBlock
	for _, b := range fn.Blocks {
		for _, s := range b.Succs {
			if s.Dominates(b) {
				li := r.loops[s]
				if li == nil {
					li = &loopInfo{Header: s, Body: map[*ssa.BasicBlock]bool{s: true}}
					r.loops[s] = li
					headers = append(headers, s)
				}
				// natural loop: nodes reaching b without passing s
				var stack []*ssa.BasicBlock
				if !li.Body[b] {
					li.Body[b] = true
					stack = append(stack, b)
				}
				for len(stack) > 0 {
					x := stack[len(stack)-1]
					stack = stack[:len(stack)-1]
					for _, p := range x.Preds {
						if !li.Body[p] {
							li.Body[p] = true
							stack = append(stack, p)
						}
					}
				}
			}
		}
	}
	sort.Slice(headers, func(i, j int) bool { return headers[i].Index < headers[j].Index })
	for i, h := range headers {
		li := r.loops[h]
		li.Ordinal = i + 1
		if r.c != nil {
			li.Spec = r.c.Loops[li.Ordinal]
		}
		for b := range li.Body {
			r.inLoop[b] = append(r.inLoop[b], li)
		}
	}
}

func (r *FnRun) isBackEdge(from, to *ssa.BasicBlock) bool {
	return to.Dominates(from)
}

// order: reverse postorder ignoring back edges
func (r *FnRun) blockOrder() []*ssa.BasicBlock {
	seen := map[*ssa.BasicBlock]bool{}
	var post []*ssa.BasicBlock
	var dfs func(b *ssa.BasicBlock)
	dfs = func(b *ssa.BasicBlock) {
		seen[b] = true
		for i := len(b.Succs) - 1; i >= 0; i-- {
			s := b.Succs[i]
			if r.isBackEdge(b, s) || seen[s] {
				continue
			}
			dfs(s)
		}
		post = append(post, b)
	}
	dfs(r.fn.Blocks[0])
	for i, j := 0, len(post)-1; i < j; i, j = i+1, j-1 {
		post[i], post[j] = post[j], post[i]
	}
	return post
}

type edge struct {
	pred *ssa.BasicBlock
	st   *State
}

// execBody runs the function body from state st with parameter values bound; returns the return points.
func (r *FnRun) execBody(st *State) {
	fn := r.fn
	if len(fn.Blocks) == 0 {
		r.unsupported("function %s has no body", fn)
	}
	r.classifyAllocs()
	r.findLoops()
	order := r.blockOrder()
	in := map[*ssa.BasicBlock][]edge{}
	in[fn.Blocks[0]] = []edge{{nil, st}}
	for _, b := range order {
		edges := in[b]
		if len(edges) == 0 {
			continue
		}
		r.curBlock = b
		var cur *State
		if li, ok := r.loops[b]; ok {
			cur = r.enterLoop(li, edges)
		} else {
			cur = r.joinBlock(b, edges)
			r.loopExitAsserts(b, edges, cur)
		}
		if cur == nil {
			continue
		}
		for _, ins := range b.Instrs {
			if _, isPhi := ins.(*ssa.Phi); isPhi {
				continue
			}
			cur = r.execInstr(cur, ins, in)
			if cur == nil {
				break
			}
		}
	}
}

func (r *FnRun) joinBlock(b *ssa.BasicBlock, edges []edge) *State {
	var sts []*State
	for _, e := range edges {
		sts = append(sts, e.st)
	}
	// phis
	for _, ins := range b.Instrs {
		phi, ok := ins.(*ssa.Phi)
		if !ok {
			break
		}
		var v Val
		first := true
		for i := len(edges) - 1; i >= 0; i-- {
			pi := predIndex(b, edges[i].pred)
			ev := r.val(phi.Edges[pi])
			if first {
				v = ev
				first = false
			} else {
				v = r.e.iteVal(edges[i].st.PC, ev, v)
			}
		}
		r.vals[phi] = v
		if phi.Comment != "" {
			r.names[phi.Comment] = phi // the source variable now denotes the merged value
		}
	}
	return r.e.mergeStates(sts)
}

func predIndex(b, pred *ssa.BasicBlock) int {
	for i, p := range b.Preds {
		if p == pred {
			return i
		}
	}
	panic("pred not found")
}

// ---------------- values ----------------

func (r *FnRun) val(v ssa.Value) Val {
	if x, ok := r.vals[v]; ok {
		return x
	}
	switch c := v.(type) {
	case *ssa.Const:
		x := r.constVal(c)
		return x
	case *ssa.Global:
		return PtrV{Kind: PGlobal, Glob: c, T: c.Type().(*types.Pointer).Elem()}
	case *ssa.Function:
		return Scalar{r.tb().App("fn:"+c.String(), BV64)}
	case *ssa.Builtin:
		r.unsupported("builtin %s as value", c.Name())
	}
	r.unsupported("value %s (%T) used before definition in %s", v.Name(), v, r.fn)
	return nil
}

func (r *FnRun) constVal(c *ssa.Const) Val {
	tb := r.tb()
	t := c.Type()
	if c.Value == nil {
		return r.e.zeroVal(t)
	}
	if tp, ok := t.(*types.TypeParam); ok {
		_ = tp
		r.unsupported("const of type parameter")
	}
	switch {
	case isBool(t):
		return Scalar{tb.BoolC(constant.BoolVal(c.Value))}
	case isString(t):
		s := constant.StringVal(c.Value)
		return r.constString(s) // with the content facts of the constant
	case isFloat(t):
		f, _ := constant.Float64Val(c.Value)
		w, _, _ := basicInfo(t)
		return Scalar{floatBits(tb, f, w)}
	default:
		w, _, ok := basicInfo(t)
		if !ok {
			r.unsupported("const of type %s", t)
		}
		bi, ok2 := constant.Val(constant.ToInt(c.Value)).(*big.Int)
		if !ok2 {
			if i64, ok3 := constant.Val(constant.ToInt(c.Value)).(int64); ok3 {
				bi = big.NewInt(i64)
			} else {
				r.unsupported("const value %s", c.Value)
			}
		}
		return Scalar{tb.BVC(w, bi)}
	}
}

// constString: constant strings are byte objects with known content.
func (e *Engine) constString(s string) SliceV {
	tb := e.tb
	if s == "" {
		return SliceV{Base: tb.BVI(64, 0), Off: tb.BVI(64, 0), Len: tb.BVI(64, 0)}
	}
	base := e.strBase(s)
	return SliceV{Base: base, Off: tb.BVI(64, 0), Len: tb.BVI(64, int64(len(s)))}
}

func (e *Engine) strBase(s string) *Term {
	return e.tb.App("strconst:"+fmt.Sprintf("%x", s), BV64)
}

// strConstFacts: content of constant-string byte objects (immutable): asserted lazily where read.
func (e *Engine) strConstContent(s string) *Term {
	tb := e.tb
	arr := tb.App("strcontent:"+fmt.Sprintf("%x", s), ByteAr)
	return arr
}

// scalar extracts the term of a scalar-like value (pointers become numbers).
func (r *FnRun) scalar(v Val) *Term {
	switch x := v.(type) {
	case Scalar:
		return x.T
	case PtrV:
		return r.e.ptrNum(x)
	}
	panic(unsupported(fmt.Sprintf("expected scalar, got %T", v)))
}

// ---------------- alloc classification ----------------

func (r *FnRun) classifyAllocs() {
	r.allocKind = map[*ssa.Alloc]allocKind{}
	for _, b := range r.fn.Blocks {
		for _, ins := range b.Instrs {
			a, ok := ins.(*ssa.Alloc)
			if !ok {
				continue
			}
			elem := a.Type().(*types.Pointer).Elem()
			k := akLocal
			if _, isBA := isByteArray(elem); isBA {
				k = akBytes
			}
			if r.escapesRaw(a, map[ssa.Value]bool{}) {
				k = akRaw
			} else if k != akBytes && r.escapesTyped(a, map[ssa.Value]bool{}) {
				k = akHeap
			}
			r.allocKind[a] = k
		}
	}
}

func (r *FnRun) escapesRaw(v ssa.Value, seen map[ssa.Value]bool) bool {
	if seen[v] {
		return false
	}
	seen[v] = true
	refs := v.Referrers()
	if refs == nil {
		return false
	}
	for _, u := range *refs {
		switch x := u.(type) {
		case *ssa.Convert:
			if b, ok := x.Type().Underlying().(*types.Basic); ok && b.Kind() == types.UnsafePointer {
				return true
			}
		case *ssa.FieldAddr:
			if r.escapesRaw(x, seen) {
				return true
			}
		case *ssa.IndexAddr:
			if r.escapesRaw(x, seen) {
				return true
			}
		case *ssa.ChangeType:
			if r.escapesRaw(x, seen) {
				return true
			}
		}
	}
	return false
}

func (r *FnRun) escapesTyped(v ssa.Value, seen map[ssa.Value]bool) bool {
	if seen[v] {
		return false
	}
	seen[v] = true
	refs := v.Referrers()
	if refs == nil {
		return false
	}
	for _, u := range *refs {
		switch x := u.(type) {
		case *ssa.UnOp: // load
		case *ssa.Store:
			if x.Val == v {
				return true
			}
		case *ssa.FieldAddr:
			if r.escapesTyped(x, seen) {
				return true
			}
		case *ssa.IndexAddr:
			if r.escapesTyped(x, seen) {
				return true
			}
		case *ssa.DebugRef:
		case *ssa.Slice:
			// slicing a local array: handled by akBytes
			return true
		default:
			return true
		}
	}
	return false
}

// ---------------- entry state ----------------

func (e *Engine) newEntryState() *State {
	tb := e.tb
	return &State{
		PC:     tb.True(),
		Heap:   map[string]*Term{},
		M:      tb.Var("M0", ByteAr),
		SB:     tb.Var("SB0", WordAr),
		SO:     tb.Var("SO0", WordAr),
		BH:     tb.Var("BH0", ObjAr),
		BA:     tb.Var("BA0", BoolAr),
		RA:     tb.Var("RA0", BoolAr),
		Locals: map[*ssa.Alloc]Val{},
		Ghost:  map[string]*Term{},
		MapVer: map[string]*Term{},
	}
}

// ---------------- float helpers ----------------

func floatBits(tb *TB, f float64, w int) *Term {
	if w == 32 {
		return tb.BVU(32, uint64(mathFloat32bits(float32(f))))
	}
	return tb.BVU(64, mathFloat64bits(f))
}

func (r *FnRun) toFP(bits *Term) *Term {
	w := bits.Sort.W
	if w == 32 {
		return r.tb().Raw("(_ to_fp 8 24)", FP(32), bits)
	}
	return r.tb().Raw("(_ to_fp 11 53)", FP(64), bits)
}

func describeInstr(ins ssa.Instruction) string {
	s := ins.String()
	if v, ok := ins.(ssa.Value); ok {
		s = v.Name() + " = " + s
	}
	return strings.TrimSpace(s)
}

// simplifyUnder: unit-propagates the literals of the path condition into t (ite conditions known on this path disappear).
func (e *Engine) simplifyUnder(pc, t *Term) *Term {
	tb := e.tb
	m := map[*Term]*Term{}
	var lits func(x *Term)
	lits = func(x *Term) {
		switch x.Op {
		case "and":
			for _, a := range x.Args {
				lits(a)
			}
		case "not":
			if x.Args[0].Op != "true" && x.Args[0].Op != "false" {
				m[x.Args[0]] = tb.False()
			}
		case "true", "false":
		default:
			if x.Sort == BoolSort {
				m[x] = tb.True()
			}
		}
	}
	lits(pc)
	if len(m) == 0 {
		return t
	}
	return tb.Subst(t, m)
}

// loopExitAsserts: block b is entered from inside loop L (and is not part of it): check L's exit assertions here.
func (r *FnRun) loopExitAsserts(b *ssa.BasicBlock, edges []edge, st *State) {
	if st == nil {
		return
	}
	for _, li := range r.loops {
		if li.Spec == nil || (len(li.Spec.Exit) == 0 && len(li.Spec.ExitUses) == 0) || li.Body[b] {
			continue
		}
		if r.loopMergeBlock(li) != b {
			continue
		}
		env := r.rootEnvFor(st)
		// names: phis of this block, then the loop's header phis, then other source variables
		env.inLoop = true
		env.blockPhis = map[string]*ssa.Phi{}
		for _, ins := range b.Instrs {
			if phi, ok := ins.(*ssa.Phi); ok && phi.Comment != "" {
				env.blockPhis[phi.Comment] = phi
			}
		}
		for _, u := range li.Spec.ExitUses {
			r.assume(st, env.useAxiom(u))
		}
		for i, cl := range li.Spec.Exit {
			if !r.root.wantClause(cl) {
				continue
			}
			g := env.EvalBool(cl.E)
			r.oblige(st, "loop-exit", fmt.Sprintf("loop%d.%d", li.Ordinal, i+1), g, b.Instrs[0].Pos(), "loop postcondition: "+cl.Text, cl.Tags)
			r.assume(st, g)
		}
	}
}

// loopMergeBlock: the first block (in execution order) outside loop li that every exit of the loop leads to.
func (r *FnRun) loopMergeBlock(li *loopInfo) *ssa.BasicBlock {
	if li.merge != nil || li.mergeDone {
		return li.merge
	}
	li.mergeDone = true
	var targets []*ssa.BasicBlock
	seenT := map[*ssa.BasicBlock]bool{}
	for b := range li.Body {
		for _, s := range b.Succs {
			if !li.Body[s] && !seenT[s] {
				seenT[s] = true
				targets = append(targets, s)
			}
		}
	}
	reach := func(from *ssa.BasicBlock) map[*ssa.BasicBlock]bool {
		seen := map[*ssa.BasicBlock]bool{from: true}
		stack := []*ssa.BasicBlock{from}
		for len(stack) > 0 {
			x := stack[len(stack)-1]
			stack = stack[:len(stack)-1]
			for _, s := range x.Succs {
				if !seen[s] && !r.isBackEdge(x, s) {
					seen[s] = true
					stack = append(stack, s)
				}
			}
		}
		return seen
	}
	var sets []map[*ssa.BasicBlock]bool
	for _, t := range targets {
		sets = append(sets, reach(t))
	}
	for _, b := range r.blockOrder() {
		if li.Body[b] {
			continue
		}
		all := len(sets) > 0
		for _, s := range sets {
			if !s[b] {
				all = false
			}
		}
		// error exits (blocks ending in return) do not count as continuations unless they are the only ones
		if all {
			li.merge = b
			return b
		}
	}
	// no common continuation: fall back to the exit target reached from the header itself
	for _, s := range li.Header.Succs {
		if !li.Body[s] {
			li.merge = s
		}
	}
	return li.merge
}
