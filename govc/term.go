package main

// SMT term DAG: sorts, hash-consed terms, light simplification, SMT-LIB2 printing.

import (
	"fmt"
	"math/big"
	"sort"
	"strings"
)

type SortKind int

const (
	SBool SortKind = iota
	SBV
	SArr
	SFP
)

type Sort struct {
	Kind      SortKind
	W         int
	Idx, Elem *Sort
}

var sortTab = map[string]*Sort{}

func (s *Sort) String() string {
	switch s.Kind {
	case SBool:
		return "Bool"
	case SBV:
		return fmt.Sprintf("(_ BitVec %d)", s.W)
	case SFP:
		if s.W == 32 {
			return "(_ FloatingPoint 8 24)"
		}
		return "(_ FloatingPoint 11 53)"
	default:
		return fmt.Sprintf("(Array %s %s)", s.Idx, s.Elem)
	}
}

func internSort(s *Sort) *Sort {
	k := s.String()
	if x, ok := sortTab[k]; ok {
		return x
	}
	sortTab[k] = s
	return s
}

var BoolSort = internSort(&Sort{Kind: SBool})

func BV(w int) *Sort           { return internSort(&Sort{Kind: SBV, W: w}) }
func FP(w int) *Sort           { return internSort(&Sort{Kind: SFP, W: w}) }
func ArrSort(i, e *Sort) *Sort { return internSort(&Sort{Kind: SArr, Idx: i, Elem: e}) }

var (
	BV8    = BV(8)
	BV16   = BV(16)
	BV32   = BV(32)
	BV64   = BV(64)
	ByteAr = ArrSort(BV64, BV8)    // index -> byte
	ObjAr  = ArrSort(BV64, ByteAr) // base -> content
	WordAr = ArrSort(BV64, BV64)
	BoolAr = ArrSort(BV64, BoolSort)
)

type Term struct {
	Op    string // "var","const","true","false", smt op names, "app","forall","exists","extract","zext","sext"
	Name  string // var / app name
	Args  []*Term
	Sort  *Sort
	Val   *big.Int // const
	I, J  int      // extract hi/lo ; ext amount
	Bound []*Term  // quantifier bound vars
	Pats  [][]*Term
	id    int
	hasBV bool // contains bound variable
}

type funDecl struct {
	Name string
	Args []*Sort
	Ret  *Sort
}

// TB is the term builder / context. One per govc run (terms are shared across obligations).
type TB struct {
	tab    map[string]*Term
	ftab   map[fastKey]*Term
	nextID int
	vars   map[string]*Term
	funs   map[string]*funDecl
	fresh  map[string]int
}

func NewTB() *TB {
	return &TB{ftab: map[fastKey]*Term{}, tab: map[string]*Term{}, vars: map[string]*Term{}, funs: map[string]*funDecl{}, fresh: map[string]int{}}
}

type fastKey struct {
	op, name   string
	sort       *Sort
	i, j       int
	a0, a1, a2 int
}

func (tb *TB) mk(t *Term) *Term {
	// fast path: small applications without constants, binders or patterns (the bulk of all terms)
	if t.Val == nil && len(t.Args) <= 3 && len(t.Bound) == 0 && len(t.Pats) == 0 {
		fk := fastKey{op: t.Op, name: t.Name, sort: t.Sort, i: t.I, j: t.J, a0: -1, a1: -1, a2: -1}
		if len(t.Args) > 0 {
			fk.a0 = t.Args[0].id
		}
		if len(t.Args) > 1 {
			fk.a1 = t.Args[1].id
		}
		if len(t.Args) > 2 {
			fk.a2 = t.Args[2].id
		}
		if x, ok := tb.ftab[fk]; ok {
			return x
		}
		tb.nextID++
		t.id = tb.nextID
		for _, a := range t.Args {
			if a.hasBV {
				t.hasBV = true
			}
		}
		if t.Op == "bound" {
			t.hasBV = true
		}
		tb.ftab[fk] = t
		return t
	}
	var sb strings.Builder
	sb.WriteString(t.Op)
	sb.WriteByte('|')
	sb.WriteString(t.Name)
	sb.WriteByte('|')
	if t.Val != nil {
		sb.WriteString(t.Val.String())
	}
	fmt.Fprintf(&sb, "|%d|%d|%s", t.I, t.J, t.Sort)
	for _, a := range t.Args {
		fmt.Fprintf(&sb, ",%d", a.id)
	}
	for _, b := range t.Bound {
		fmt.Fprintf(&sb, ";%d", b.id)
	}
	for _, p := range t.Pats {
		sb.WriteString("#")
		for _, x := range p {
			fmt.Fprintf(&sb, "p%d", x.id)
		}
	}
	k := sb.String()
	if x, ok := tb.tab[k]; ok {
		return x
	}
	tb.nextID++
	t.id = tb.nextID
	for _, a := range t.Args {
		if a.hasBV {
			t.hasBV = true
		}
	}
	if t.Op == "bound" {
		t.hasBV = true
	}
	tb.tab[k] = t
	return t
}

func (tb *TB) Var(name string, s *Sort) *Term {
	if v, ok := tb.vars[name]; ok {
		if v.Sort != s {
			panic(fmt.Sprintf("var %s redeclared with sort %s (was %s)", name, s, v.Sort))
		}
		return v
	}
	v := tb.mk(&Term{Op: "var", Name: name, Sort: s})
	tb.vars[name] = v
	return v
}

func (tb *TB) Fresh(prefix string, s *Sort) *Term {
	prefix = sanitize(prefix)
	for {
		tb.fresh[prefix]++
		n := fmt.Sprintf("%s!%d", prefix, tb.fresh[prefix])
		if _, ok := tb.vars[n]; !ok {
			return tb.Var(n, s)
		}
	}
}

func sanitize(s string) string {
	var sb strings.Builder
	for _, r := range s {
		switch {
		case r >= 'a' && r <= 'z', r >= 'A' && r <= 'Z', r >= '0' && r <= '9', r == '_', r == '.', r == '!', r == '$':
			sb.WriteRune(r)
		default:
			sb.WriteByte('_')
		}
	}
	return sb.String()
}

func (tb *TB) BoundVar(name string, s *Sort) *Term {
	tb.fresh["bound"]++
	return tb.mk(&Term{Op: "bound", Name: fmt.Sprintf("%s?%d", sanitize(name), tb.fresh["bound"]), Sort: s})
}

func (tb *TB) True() *Term  { return tb.mk(&Term{Op: "true", Sort: BoolSort}) }
func (tb *TB) False() *Term { return tb.mk(&Term{Op: "false", Sort: BoolSort}) }
func (tb *TB) BoolC(b bool) *Term {
	if b {
		return tb.True()
	}
	return tb.False()
}

func (tb *TB) BVC(w int, v *big.Int) *Term {
	m := new(big.Int).Lsh(big.NewInt(1), uint(w))
	x := new(big.Int).Mod(v, m)
	if x.Sign() < 0 {
		x.Add(x, m)
	}
	return tb.mk(&Term{Op: "const", Sort: BV(w), Val: x})
}
func (tb *TB) BVI(w int, v int64) *Term { return tb.BVC(w, big.NewInt(v)) }
func (tb *TB) BVU(w int, v uint64) *Term {
	return tb.BVC(w, new(big.Int).SetUint64(v))
}

func (t *Term) IsConst() bool { return t.Op == "const" }
func (t *Term) IsTrue() bool  { return t.Op == "true" }
func (t *Term) IsFalse() bool { return t.Op == "false" }

func (t *Term) SignedVal() *big.Int {
	v := new(big.Int).Set(t.Val)
	if v.Bit(t.Sort.W-1) == 1 {
		v.Sub(v, new(big.Int).Lsh(big.NewInt(1), uint(t.Sort.W)))
	}
	return v
}

func (tb *TB) Not(a *Term) *Term {
	switch a.Op {
	case "true":
		return tb.False()
	case "false":
		return tb.True()
	case "not":
		return a.Args[0]
	}
	return tb.mk(&Term{Op: "not", Args: []*Term{a}, Sort: BoolSort})
}

func (tb *TB) And(as ...*Term) *Term {
	var out []*Term
	seen := map[int]bool{}
	for _, a := range as {
		if a == nil || a.IsTrue() {
			continue
		}
		if a.IsFalse() {
			return a
		}
		if a.Op == "and" {
			for _, x := range a.Args {
				if !seen[x.id] {
					seen[x.id] = true
					out = append(out, x)
				}
			}
			continue
		}
		if !seen[a.id] {
			seen[a.id] = true
			out = append(out, a)
		}
	}
	for _, a := range out {
		if a.Op == "not" && seen[a.Args[0].id] {
			return tb.False()
		}
	}
	switch len(out) {
	case 0:
		return tb.True()
	case 1:
		return out[0]
	}
	return tb.mk(&Term{Op: "and", Args: out, Sort: BoolSort})
}

func (tb *TB) Or(as ...*Term) *Term {
	var out []*Term
	seen := map[int]bool{}
	for _, a := range as {
		if a == nil || a.IsFalse() {
			continue
		}
		if a.IsTrue() {
			return a
		}
		if a.Op == "or" {
			for _, x := range a.Args {
				if !seen[x.id] {
					seen[x.id] = true
					out = append(out, x)
				}
			}
			continue
		}
		if !seen[a.id] {
			seen[a.id] = true
			out = append(out, a)
		}
	}
	for _, a := range out {
		if a.Op == "not" && seen[a.Args[0].id] {
			return tb.True()
		}
	}
	switch len(out) {
	case 0:
		return tb.False()
	case 1:
		return out[0]
	}
	return tb.mk(&Term{Op: "or", Args: out, Sort: BoolSort})
}

func (tb *TB) Implies(a, b *Term) *Term {
	if a.IsTrue() {
		return b
	}
	if a.IsFalse() || b.IsTrue() {
		return tb.True()
	}
	if b.IsFalse() {
		return tb.Not(a)
	}
	return tb.mk(&Term{Op: "=>", Args: []*Term{a, b}, Sort: BoolSort})
}

func (tb *TB) Iff(a, b *Term) *Term { return tb.Eq(a, b) }

func (tb *TB) Eq(a, b *Term) *Term {
	if a.Sort != b.Sort {
		panic(fmt.Sprintf("Eq sort mismatch %s vs %s: %s / %s", a.Sort, b.Sort, tb.Show(a), tb.Show(b)))
	}
	if a == b {
		return tb.True()
	}
	if a.IsConst() && b.IsConst() {
		return tb.BoolC(a.Val.Cmp(b.Val) == 0)
	}
	if a.Sort == BoolSort {
		if a.IsTrue() {
			return b
		}
		if b.IsTrue() {
			return a
		}
		if a.IsFalse() {
			return tb.Not(b)
		}
		if b.IsFalse() {
			return tb.Not(a)
		}
	}
	if a.id > b.id {
		a, b = b, a
	}
	return tb.mk(&Term{Op: "=", Args: []*Term{a, b}, Sort: BoolSort})
}

func (tb *TB) Ne(a, b *Term) *Term { return tb.Not(tb.Eq(a, b)) }

func (tb *TB) Ite(c, a, b *Term) *Term {
	if a.Sort != b.Sort {
		panic(fmt.Sprintf("Ite sort mismatch %s vs %s", a.Sort, b.Sort))
	}
	if c.IsTrue() {
		return a
	}
	if c.IsFalse() {
		return b
	}
	if a == b {
		return a
	}
	if a.Sort == BoolSort {
		if a.IsTrue() && b.IsFalse() {
			return c
		}
		if a.IsFalse() && b.IsTrue() {
			return tb.Not(c)
		}
	}
	return tb.mk(&Term{Op: "ite", Args: []*Term{c, a, b}, Sort: a.Sort})
}

// ---- bit-vector ops ----

func (tb *TB) bin(op string, a, b *Term) *Term {
	if a.Sort != b.Sort {
		panic(fmt.Sprintf("%s sort mismatch %s vs %s (%s ; %s)", op, a.Sort, b.Sort, tb.Show(a), tb.Show(b)))
	}
	w := a.Sort.W
	if a.IsConst() && b.IsConst() {
		m := new(big.Int).Lsh(big.NewInt(1), uint(w))
		r := new(big.Int)
		ok := true
		switch op {
		case "bvadd":
			r.Add(a.Val, b.Val)
		case "bvsub":
			r.Sub(a.Val, b.Val)
		case "bvmul":
			r.Mul(a.Val, b.Val)
		case "bvand":
			r.And(a.Val, b.Val)
		case "bvor":
			r.Or(a.Val, b.Val)
		case "bvxor":
			r.Xor(a.Val, b.Val)
		case "bvshl":
			if b.Val.Cmp(big.NewInt(int64(w))) >= 0 {
				r.SetInt64(0)
			} else {
				r.Lsh(a.Val, uint(b.Val.Int64()))
			}
		case "bvlshr":
			if b.Val.Cmp(big.NewInt(int64(w))) >= 0 {
				r.SetInt64(0)
			} else {
				r.Rsh(a.Val, uint(b.Val.Int64()))
			}
		default:
			ok = false
		}
		if ok {
			r.Mod(r, m)
			return tb.BVC(w, r)
		}
	}
	switch op {
	case "bvadd":
		if a.IsConst() && !b.IsConst() {
			a, b = b, a // constants to the right
		}
		if a.IsConst() && a.Val.Sign() == 0 {
			return b
		}
		if b.IsConst() && b.Val.Sign() == 0 {
			return a
		}
		// (x + c1) + c2
		if b.IsConst() && a.Op == "bvadd" && a.Args[1].IsConst() {
			return tb.bin("bvadd", a.Args[0], tb.bin("bvadd", a.Args[1], b))
		}
	case "bvsub":
		if b.IsConst() && b.Val.Sign() == 0 {
			return a
		}
		if a == b {
			return tb.BVI(w, 0)
		}
		if a.Op == "bvadd" && len(a.Args) == 2 {
			if a.Args[0] == b {
				return a.Args[1]
			}
			if a.Args[1] == b {
				return a.Args[0]
			}
		}
		// (x + c) - (x + d) = c - d ; (p + x) - (p + y) = x - y
		if a.Op == "bvadd" && b.Op == "bvadd" {
			if a.Args[0] == b.Args[0] {
				return tb.bin("bvsub", a.Args[1], b.Args[1])
			}
			if a.Args[1] == b.Args[1] {
				return tb.bin("bvsub", a.Args[0], b.Args[0])
			}
		}
		if b.IsConst() {
			return tb.bin("bvadd", a, tb.BVC(w, new(big.Int).Neg(b.Val)))
		}
	case "bvmul":
		if a.IsConst() && a.Val.Cmp(big.NewInt(1)) == 0 {
			return b
		}
		if b.IsConst() && b.Val.Cmp(big.NewInt(1)) == 0 {
			return a
		}
		if (a.IsConst() && a.Val.Sign() == 0) || (b.IsConst() && b.Val.Sign() == 0) {
			return tb.BVI(w, 0)
		}
	case "bvor", "bvxor":
		if a.IsConst() && a.Val.Sign() == 0 {
			return b
		}
		if b.IsConst() && b.Val.Sign() == 0 {
			return a
		}
	case "bvshl", "bvlshr", "bvashr":
		if b.IsConst() && b.Val.Sign() == 0 {
			return a
		}
	}
	return tb.mk(&Term{Op: op, Args: []*Term{a, b}, Sort: a.Sort})
}

func (tb *TB) Add(a, b *Term) *Term  { return tb.bin("bvadd", a, b) }
func (tb *TB) Sub(a, b *Term) *Term  { return tb.bin("bvsub", a, b) }
func (tb *TB) Mul(a, b *Term) *Term  { return tb.bin("bvmul", a, b) }
func (tb *TB) BAnd(a, b *Term) *Term { return tb.bin("bvand", a, b) }
func (tb *TB) BOr(a, b *Term) *Term  { return tb.bin("bvor", a, b) }
func (tb *TB) BXor(a, b *Term) *Term { return tb.bin("bvxor", a, b) }
func (tb *TB) Shl(a, b *Term) *Term  { return tb.bin("bvshl", a, b) }
func (tb *TB) LShr(a, b *Term) *Term { return tb.bin("bvlshr", a, b) }
func (tb *TB) AShr(a, b *Term) *Term { return tb.bin("bvashr", a, b) }
func (tb *TB) UDiv(a, b *Term) *Term { return tb.bin("bvudiv", a, b) }
func (tb *TB) URem(a, b *Term) *Term { return tb.bin("bvurem", a, b) }
func (tb *TB) SDiv(a, b *Term) *Term { return tb.bin("bvsdiv", a, b) }
func (tb *TB) SRem(a, b *Term) *Term { return tb.bin("bvsrem", a, b) }
func (tb *TB) Neg(a *Term) *Term {
	if a.IsConst() {
		return tb.BVC(a.Sort.W, new(big.Int).Neg(a.Val))
	}
	return tb.mk(&Term{Op: "bvneg", Args: []*Term{a}, Sort: a.Sort})
}
func (tb *TB) BNot(a *Term) *Term {
	return tb.mk(&Term{Op: "bvnot", Args: []*Term{a}, Sort: a.Sort})
}

func (tb *TB) cmp(op string, a, b *Term) *Term {
	if a.Sort != b.Sort {
		panic(fmt.Sprintf("%s sort mismatch %s vs %s (%s ; %s)", op, a.Sort, b.Sort, tb.Show(a), tb.Show(b)))
	}
	if a.IsConst() && b.IsConst() {
		var x, y *big.Int
		if op[2] == 's' {
			x, y = a.SignedVal(), b.SignedVal()
		} else {
			x, y = a.Val, b.Val
		}
		c := x.Cmp(y)
		switch op[3:] {
		case "lt":
			return tb.BoolC(c < 0)
		case "le":
			return tb.BoolC(c <= 0)
		case "gt":
			return tb.BoolC(c > 0)
		case "ge":
			return tb.BoolC(c >= 0)
		}
	}
	if a == b {
		switch op[3:] {
		case "lt", "gt":
			return tb.False()
		default:
			return tb.True()
		}
	}
	return tb.mk(&Term{Op: op, Args: []*Term{a, b}, Sort: BoolSort})
}

func (tb *TB) ULt(a, b *Term) *Term { return tb.cmp("bvult", a, b) }
func (tb *TB) ULe(a, b *Term) *Term { return tb.cmp("bvule", a, b) }
func (tb *TB) UGt(a, b *Term) *Term { return tb.cmp("bvugt", a, b) }
func (tb *TB) UGe(a, b *Term) *Term { return tb.cmp("bvuge", a, b) }
func (tb *TB) SLt(a, b *Term) *Term { return tb.cmp("bvslt", a, b) }
func (tb *TB) SLe(a, b *Term) *Term { return tb.cmp("bvsle", a, b) }
func (tb *TB) SGt(a, b *Term) *Term { return tb.cmp("bvsgt", a, b) }
func (tb *TB) SGe(a, b *Term) *Term { return tb.cmp("bvsge", a, b) }

func (tb *TB) Extract(hi, lo int, a *Term) *Term {
	if lo == 0 && hi == a.Sort.W-1 {
		return a
	}
	if a.IsConst() {
		v := new(big.Int).Rsh(a.Val, uint(lo))
		return tb.BVC(hi-lo+1, v)
	}
	if (a.Op == "zext" || a.Op == "sext") && hi < a.Args[0].Sort.W {
		return tb.Extract(hi, lo, a.Args[0])
	}
	if a.Op == "concat" {
		lw := a.Args[1].Sort.W
		if hi < lw {
			return tb.Extract(hi, lo, a.Args[1])
		}
		if lo >= lw {
			return tb.Extract(hi-lw, lo-lw, a.Args[0])
		}
	}
	return tb.mk(&Term{Op: "extract", I: hi, J: lo, Args: []*Term{a}, Sort: BV(hi - lo + 1)})
}

func (tb *TB) ZExt(a *Term, to int) *Term {
	if a.Sort.W == to {
		return a
	}
	if a.Sort.W > to {
		return tb.Extract(to-1, 0, a)
	}
	if a.IsConst() {
		return tb.BVC(to, a.Val)
	}
	return tb.mk(&Term{Op: "zext", I: to - a.Sort.W, Args: []*Term{a}, Sort: BV(to)})
}

func (tb *TB) SExt(a *Term, to int) *Term {
	if a.Sort.W == to {
		return a
	}
	if a.Sort.W > to {
		return tb.Extract(to-1, 0, a)
	}
	if a.IsConst() {
		return tb.BVC(to, a.SignedVal())
	}
	return tb.mk(&Term{Op: "sext", I: to - a.Sort.W, Args: []*Term{a}, Sort: BV(to)})
}

func (tb *TB) Concat(hi, lo *Term) *Term {
	if hi.IsConst() && lo.IsConst() {
		v := new(big.Int).Lsh(hi.Val, uint(lo.Sort.W))
		v.Or(v, lo.Val)
		return tb.BVC(hi.Sort.W+lo.Sort.W, v)
	}
	// concat(ite(c,a,b), ite(c,x,y)) = ite(c, concat(a,x), concat(b,y)): keeps byte-wise stored values recognisable
	if hi.Op == "ite" && lo.Op == "ite" && hi.Args[0] == lo.Args[0] {
		return tb.Ite(hi.Args[0], tb.Concat(hi.Args[1], lo.Args[1]), tb.Concat(hi.Args[2], lo.Args[2]))
	}
	// concat(extract(h,m+1,x), extract(m,l,x)) = extract(h,l,x)
	if hi.Op == "extract" && lo.Op == "extract" && hi.Args[0] == lo.Args[0] && hi.J == lo.I+1 {
		return tb.Extract(hi.I, lo.J, hi.Args[0])
	}
	return tb.mk(&Term{Op: "concat", Args: []*Term{hi, lo}, Sort: BV(hi.Sort.W + lo.Sort.W)})
}

// ---- arrays ----

func (tb *TB) Select(a, i *Term) *Term {
	if a.Sort.Kind != SArr {
		panic("select on non-array " + a.Sort.String())
	}
	if a.Sort.Idx != i.Sort {
		panic(fmt.Sprintf("select index sort %s, want %s", i.Sort, a.Sort.Idx))
	}
	// see through stores / ite / copyrange when decidable syntactically
	for steps := 0; steps < 64; steps++ {
		switch a.Op {
		case "store":
			j := a.Args[1]
			if j == i {
				return a.Args[2]
			}
			if d := tb.distinctSyn(i, j); d {
				a = a.Args[0]
				continue
			}
			if a.Sort.Elem.Kind != SArr && storeDepth(a) <= 40 {
				// read-over-write pushed down: keeps index reads free of array terms
				return tb.Ite(tb.Eq(i, j), a.Args[2], tb.Select(a.Args[0], i))
			}
		case "app":
			if a.Name == "copyrange" {
				// copyrange(dst, doff, src, soff, n)[i] = ite(doff<=i<doff+n (unsigned, no wrap assumed), src[i-doff+soff], dst[i])
				dst, doff, src, soff, n := a.Args[0], a.Args[1], a.Args[2], a.Args[3], a.Args[4]
				in := tb.ULt(tb.Sub(i, doff), n)
				return tb.Ite(in, tb.Select(src, tb.Add(tb.Sub(i, doff), soff)), tb.Select(dst, i))
			}
			if a.Name == "constarr" {
				return a.Args[0]
			}
		case "ite":
			if a.Args[1].Op == "store" || a.Args[2].Op == "store" || steps == 0 {
				return tb.Ite(a.Args[0], tb.Select(a.Args[1], i), tb.Select(a.Args[2], i))
			}
		}
		break
	}
	return tb.mk(&Term{Op: "select", Args: []*Term{a, i}, Sort: a.Sort.Elem})
}

func storeDepth(a *Term) int {
	n := 0
	for a.Op == "store" {
		n++
		a = a.Args[0]
	}
	return n
}

// distinctSyn: syntactically provable i != j (both x+c with different c, or distinct constants)
func (tb *TB) distinctSyn(i, j *Term) bool {
	bi, ci := splitAddConst(i)
	bj, cj := splitAddConst(j)
	if bi == bj && ci.Cmp(cj) != 0 {
		return true
	}
	return false
}

func splitAddConst(t *Term) (*Term, *big.Int) {
	if t.IsConst() {
		return nil, t.Val
	}
	if t.Op == "bvadd" && t.Args[1].IsConst() {
		return t.Args[0], t.Args[1].Val
	}
	if t.Op == "bvadd" && t.Args[0].IsConst() {
		return t.Args[1], t.Args[0].Val
	}
	return t, big.NewInt(0)
}

func (tb *TB) Store(a, i, v *Term) *Term {
	if a.Sort.Idx != i.Sort || a.Sort.Elem != v.Sort {
		panic(fmt.Sprintf("store sort mismatch: arr %s idx %s val %s", a.Sort, i.Sort, v.Sort))
	}
	if a.Op == "store" && a.Args[1] == i {
		a = a.Args[0]
	}
	return tb.mk(&Term{Op: "store", Args: []*Term{a, i, v}, Sort: a.Sort})
}

// App applies an uninterpreted (or defined-by-axiom) function.
func (tb *TB) App(name string, ret *Sort, args ...*Term) *Term {
	name = sanitize(name)
	fd, ok := tb.funs[name]
	if !ok {
		fd = &funDecl{Name: name, Ret: ret}
		for _, a := range args {
			fd.Args = append(fd.Args, a.Sort)
		}
		tb.funs[name] = fd
	} else {
		if fd.Ret != ret || len(fd.Args) != len(args) {
			panic(fmt.Sprintf("function %s used with inconsistent signature", name))
		}
		for i, a := range args {
			if fd.Args[i] != a.Sort {
				panic(fmt.Sprintf("function %s arg %d sort %s, want %s", name, i, a.Sort, fd.Args[i]))
			}
		}
	}
	if len(args) == 0 {
		return tb.Var(name, ret)
	}
	return tb.mk(&Term{Op: "app", Name: name, Args: args, Sort: ret})
}

func (tb *TB) CopyRange(dst, doff, src, soff, n *Term) *Term {
	if n.IsConst() && n.Val.Sign() == 0 {
		return dst
	}
	if n.IsConst() && n.Val.Cmp(big.NewInt(32)) <= 0 {
		out := dst
		for i := int64(0); i < n.Val.Int64(); i++ {
			k := tb.BVI(64, i)
			out = tb.Store(out, tb.Add(doff, k), tb.Select(src, tb.Add(soff, k)))
		}
		return out
	}
	return tb.mk(&Term{Op: "app", Name: "copyrange", Args: []*Term{dst, doff, src, soff, n}, Sort: dst.Sort})
}

func (tb *TB) Forall(bound []*Term, body *Term, pats ...[]*Term) *Term {
	if !body.hasBV {
		return body
	}
	t := tb.mk(&Term{Op: "forall", Bound: bound, Args: []*Term{body}, Sort: BoolSort, Pats: pats})
	t.hasBV = tb.stillBound(t)
	return t
}

func (tb *TB) Exists(bound []*Term, body *Term) *Term {
	if !body.hasBV {
		return body
	}
	t := tb.mk(&Term{Op: "exists", Bound: bound, Args: []*Term{body}, Sort: BoolSort})
	t.hasBV = tb.stillBound(t)
	return t
}

// stillBound reports whether t has free bound-variables not bound by its own binder.
func (tb *TB) stillBound(t *Term) bool {
	free := map[int]bool{}
	var walk func(x *Term, bound map[int]bool)
	seen := map[int]bool{}
	walk = func(x *Term, bound map[int]bool) {
		if !x.hasBV {
			return
		}
		if x.Op == "bound" {
			if !bound[x.id] {
				free[x.id] = true
			}
			return
		}
		if x.Op == "forall" || x.Op == "exists" {
			nb := map[int]bool{}
			for k := range bound {
				nb[k] = true
			}
			for _, b := range x.Bound {
				nb[b.id] = true
			}
			walk(x.Args[0], nb)
			return
		}
		if len(bound) == 0 {
			if seen[x.id] {
				return
			}
			seen[x.id] = true
		}
		for _, a := range x.Args {
			walk(a, bound)
		}
	}
	walk(t, map[int]bool{})
	return len(free) > 0
}

// Subst replaces variables/bound vars (by term identity) in t.
func (tb *TB) Subst(t *Term, m map[*Term]*Term) *Term {
	cache := map[*Term]*Term{}
	var rec func(x *Term) *Term
	rec = func(x *Term) *Term {
		if r, ok := m[x]; ok {
			return r
		}
		if len(x.Args) == 0 {
			return x
		}
		if r, ok := cache[x]; ok {
			return r
		}
		args := make([]*Term, len(x.Args))
		ch := false
		for i, a := range x.Args {
			args[i] = rec(a)
			if args[i] != a {
				ch = true
			}
		}
		var r *Term
		if !ch {
			r = x
		} else {
			r = tb.rebuild(x, args)
		}
		cache[x] = r
		return r
	}
	return rec(t)
}

func (tb *TB) rebuild(x *Term, a []*Term) *Term {
	switch x.Op {
	case "not":
		return tb.Not(a[0])
	case "and":
		return tb.And(a...)
	case "or":
		return tb.Or(a...)
	case "=>":
		return tb.Implies(a[0], a[1])
	case "=":
		return tb.Eq(a[0], a[1])
	case "ite":
		return tb.Ite(a[0], a[1], a[2])
	case "select":
		return tb.Select(a[0], a[1])
	case "store":
		return tb.Store(a[0], a[1], a[2])
	case "extract":
		return tb.Extract(x.I, x.J, a[0])
	case "zext":
		return tb.ZExt(a[0], x.Sort.W)
	case "sext":
		return tb.SExt(a[0], x.Sort.W)
	case "concat":
		return tb.Concat(a[0], a[1])
	case "bvneg":
		return tb.Neg(a[0])
	case "bvnot":
		return tb.BNot(a[0])
	case "app":
		if x.Name == "copyrange" {
			return tb.CopyRange(a[0], a[1], a[2], a[3], a[4])
		}
		return tb.mk(&Term{Op: "app", Name: x.Name, Args: a, Sort: x.Sort})
	case "forall":
		return tb.Forall(x.Bound, a[0], x.Pats...)
	case "exists":
		return tb.Exists(x.Bound, a[0])
	case "bvult", "bvule", "bvugt", "bvuge", "bvslt", "bvsle", "bvsgt", "bvsge":
		return tb.cmp(x.Op, a[0], a[1])
	case "bvadd", "bvsub", "bvmul", "bvand", "bvor", "bvxor", "bvshl", "bvlshr", "bvashr", "bvudiv", "bvurem", "bvsdiv", "bvsrem":
		return tb.bin(x.Op, a[0], a[1])
	}
	return tb.mk(&Term{Op: x.Op, Name: x.Name, Args: a, Sort: x.Sort, I: x.I, J: x.J, Val: x.Val})
}

// raw op (e.g. floating point) with explicit printing name
func (tb *TB) Raw(op string, s *Sort, args ...*Term) *Term {
	return tb.mk(&Term{Op: "raw", Name: op, Args: args, Sort: s})
}

// ---- printing ----

func constStr(t *Term) string {
	w := t.Sort.W
	if w%4 == 0 {
		s := t.Val.Text(16)
		return "#x" + strings.Repeat("0", w/4-len(s)) + s
	}
	s := t.Val.Text(2)
	return "#b" + strings.Repeat("0", w-len(s)) + s
}

func qname(s string) string {
	return "|" + s + "|"
}

// Show prints a term without sharing (debug).
func (tb *TB) Show(t *Term) string {
	p := &printer{tb: tb, names: map[int]string{}, budget: 400}
	return p.str(t)
}

type printer struct {
	tb     *TB
	names  map[int]string
	budget int
}

func (p *printer) str(t *Term) string {
	if n, ok := p.names[t.id]; ok {
		return n
	}
	if p.budget > 0 {
		p.budget--
		if p.budget == 0 {
			return "..."
		}
	}
	switch t.Op {
	case "var":
		return qname(t.Name)
	case "bound":
		return qname(t.Name)
	case "const":
		return constStr(t)
	case "true", "false":
		return t.Op
	case "extract":
		return fmt.Sprintf("((_ extract %d %d) %s)", t.I, t.J, p.str(t.Args[0]))
	case "zext":
		return fmt.Sprintf("((_ zero_extend %d) %s)", t.I, p.str(t.Args[0]))
	case "sext":
		return fmt.Sprintf("((_ sign_extend %d) %s)", t.I, p.str(t.Args[0]))
	case "app":
		if t.Name == "constarr" {
			return fmt.Sprintf("((as const %s) %s)", t.Sort, p.str(t.Args[0]))
		}
		var sb strings.Builder
		sb.WriteString("(" + qname(t.Name))
		for _, a := range t.Args {
			sb.WriteString(" " + p.str(a))
		}
		sb.WriteString(")")
		return sb.String()
	case "raw":
		var sb strings.Builder
		sb.WriteString("(" + t.Name)
		for _, a := range t.Args {
			sb.WriteString(" " + p.str(a))
		}
		sb.WriteString(")")
		return sb.String()
	case "forall", "exists":
		var sb strings.Builder
		sb.WriteString("(" + t.Op + " (")
		for _, b := range t.Bound {
			fmt.Fprintf(&sb, "(%s %s)", qname(b.Name), b.Sort)
		}
		sb.WriteString(") ")
		body := p.str(t.Args[0])
		if len(t.Pats) > 0 && patsOK(t.Pats) {
			sb.WriteString("(! " + body)
			for _, pat := range t.Pats {
				sb.WriteString(" :pattern (")
				for i, x := range pat {
					if i > 0 {
						sb.WriteString(" ")
					}
					sb.WriteString(p.str(x))
				}
				sb.WriteString(")")
			}
			sb.WriteString(")")
		} else {
			sb.WriteString(body)
		}
		sb.WriteString(")")
		return sb.String()
	}
	var sb strings.Builder
	sb.WriteString("(" + t.Op)
	for _, a := range t.Args {
		sb.WriteString(" " + p.str(a))
	}
	sb.WriteString(")")
	return sb.String()
}

func patsOK(pats [][]*Term) bool {
	seen := map[*Term]bool{}
	var bad func(t *Term) bool
	bad = func(t *Term) bool {
		if seen[t] {
			return false
		}
		seen[t] = true
		switch t.Op {
		case "ite", "and", "or", "not", "=>", "=", "forall", "exists":
			return true
		}
		for _, a := range t.Args {
			if bad(a) {
				return true
			}
		}
		return false
	}
	for _, p := range pats {
		for _, x := range p {
			if bad(x) {
				return false
			}
		}
	}
	return true
}

// Script renders an SMT-LIB2 script asserting all of hyps and the negation of goal.
// Shared closed sub-terms are hoisted into define-funs.
func (tb *TB) Script(hyps []*Term, goal *Term, produceModels bool, forCVC5 bool, values ...*Term) string {
	roots := append([]*Term{}, hyps...)
	if goal != nil {
		roots = append(roots, goal)
	}
	roots = append(roots, values...)
	// count references
	refs := map[int]int{}
	var order []*Term
	visited := map[int]bool{}
	usedVars := map[string]*Term{}
	usedFuns := map[string]bool{}
	usesCopy := false
	var visit func(t *Term)
	visit = func(t *Term) {
		refs[t.id]++
		if visited[t.id] {
			return
		}
		visited[t.id] = true
		for _, a := range t.Args {
			visit(a)
		}
		for _, pat := range t.Pats {
			for _, x := range pat {
				visit(x)
			}
		}
		switch t.Op {
		case "var":
			usedVars[t.Name] = t
		case "app":
			if t.Name == "copyrange" {
				usesCopy = true
			} else if t.Name != "constarr" {
				usedFuns[t.Name] = true
			}
		}
		order = append(order, t)
	}
	for _, r := range roots {
		visit(r)
	}
	var sb strings.Builder
	if produceModels {
		sb.WriteString("(set-option :produce-models true)\n")
	}
	sb.WriteString("(set-logic ALL)\n")
	var vn []string
	for n := range usedVars {
		vn = append(vn, n)
	}
	sort.Strings(vn)
	for _, n := range vn {
		fmt.Fprintf(&sb, "(declare-fun %s () %s)\n", qname(n), usedVars[n].Sort)
	}
	var fn []string
	for n := range usedFuns {
		fn = append(fn, n)
	}
	sort.Strings(fn)
	for _, n := range fn {
		fd := tb.funs[n]
		var as []string
		for _, a := range fd.Args {
			as = append(as, a.String())
		}
		fmt.Fprintf(&sb, "(declare-fun %s (%s) %s)\n", qname(n), strings.Join(as, " "), fd.Ret)
	}
	if usesCopy {
		sb.WriteString("(declare-fun |copyrange| ((Array (_ BitVec 64) (_ BitVec 8)) (_ BitVec 64) (Array (_ BitVec 64) (_ BitVec 8)) (_ BitVec 64) (_ BitVec 64)) (Array (_ BitVec 64) (_ BitVec 8)))\n")
		sb.WriteString("(assert (forall ((d (Array (_ BitVec 64) (_ BitVec 8))) (do (_ BitVec 64)) (s (Array (_ BitVec 64) (_ BitVec 8))) (so (_ BitVec 64)) (n (_ BitVec 64)) (i (_ BitVec 64))) (! (= (select (|copyrange| d do s so n) i) (ite (bvult (bvsub i do) n) (select s (bvadd (bvsub i do) so)) (select d i))) :pattern ((select (|copyrange| d do s so n) i)))))\n")
	}
	p := &printer{tb: tb, names: map[int]string{}}
	for _, t := range order {
		if t.hasBV || len(t.Args) == 0 {
			continue
		}
		if refs[t.id] > 1 {
			s := p.str(t)
			n := fmt.Sprintf("$t%d", t.id)
			fmt.Fprintf(&sb, "(define-fun %s () %s %s)\n", qname(n), t.Sort, s)
			p.names[t.id] = qname(n)
		}
	}
	for _, h := range hyps {
		fmt.Fprintf(&sb, "(assert %s)\n", p.str(h))
	}
	if goal != nil {
		fmt.Fprintf(&sb, "(assert (not %s))\n", p.str(goal))
	}
	sb.WriteString("(check-sat)\n")
	if len(values) > 0 {
		for _, v := range values {
			fmt.Fprintf(&sb, "(get-value (%s))\n", p.str(v))
		}
	} else if produceModels {
		sb.WriteString("(get-model)\n")
	}
	return sb.String()
}
