package main

// Robustness against harmless renames: contracts name source-level variables (parameters, loop counters, locals) in
// loop invariants and checkpoints.  spec/locals.json records, per function, the ordered list of variables declared in
// the source the contracts were written against.  When the current source declares the same number of variables in
// the same order but under different names, the contract's names are mapped positionally onto the new ones.  Any
// other structural change leaves the names alone (and a stale name is then reported as such).

import (
	"encoding/json"
	"go/ast"
	"go/types"
	"os"
	"path/filepath"
	"sort"
)

// declaredVars lists, per function (types.Func full name), the variables it declares in source order.
func (e *Engine) declaredVars() map[string][]string {
	out := map[string][]string{}
	for _, p := range e.pkgs {
		if !e.repoPkgs[p.PkgPath] || p.TypesInfo == nil {
			continue
		}
		for _, f := range p.Syntax {
			for _, d := range f.Decls {
				fd, ok := d.(*ast.FuncDecl)
				if !ok || fd.Body == nil {
					continue
				}
				obj, _ := p.TypesInfo.Defs[fd.Name].(*types.Func)
				if obj == nil {
					continue
				}
				type pv struct {
					pos  int
					name string
				}
				var vs []pv
				ast.Inspect(fd, func(n ast.Node) bool {
					id, ok := n.(*ast.Ident)
					if !ok {
						return true
					}
					if v, ok := p.TypesInfo.Defs[id].(*types.Var); ok && v != nil && !v.IsField() && id.Name != "_" {
						vs = append(vs, pv{int(id.Pos()), id.Name})
					}
					return true
				})
				sort.Slice(vs, func(i, j int) bool { return vs[i].pos < vs[j].pos })
				var names []string
				for _, v := range vs {
					names = append(names, v.name)
				}
				out[obj.FullName()] = names
			}
		}
	}
	return out
}

func localsFile(specDir string) string { return filepath.Join(specDir, "locals.json") }

// loadAliases computes, per function, the map contract-name -> current-name for pure renames.
func (e *Engine) loadAliases(specDir string) {
	e.aliases = map[string]map[string]string{}
	b, err := os.ReadFile(localsFile(specDir))
	if err != nil {
		return
	}
	var rec map[string][]string
	if json.Unmarshal(b, &rec) != nil {
		return
	}
	cur := e.declaredVars()
	for fn, old := range rec {
		now, ok := cur[fn]
		if !ok || len(now) != len(old) {
			continue
		}
		m := map[string]string{}
		consistent := true
		for i := range old {
			if old[i] == now[i] {
				continue
			}
			if prev, seen := m[old[i]]; seen && prev != now[i] {
				consistent = false
			}
			m[old[i]] = now[i]
		}
		if consistent && len(m) > 0 {
			e.aliases[fn] = m
		}
	}
}

func (e *Engine) writeLocals(specDir string) error {
	b, _ := json.MarshalIndent(e.declaredVars(), "", " ")
	return os.WriteFile(localsFile(specDir), append(b, '\n'), 0o644)
}
